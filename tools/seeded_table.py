#!/venv/bin/python
"""seeded_table.py MATRIX.txt : markdown rows (change | what it does | result | strengthened) for DESIGN.md section 10."""
import json
import os
import sys

VERIF = os.path.dirname(os.path.dirname(os.path.abspath(__file__)))
NOTES = {
    "C01-c": "first miss: no delayed Onset/Offset/Inset group among the valid templates -> `(Delay/5 s, Onset, Def/Pl)` etc.",
    "C01-d": "first miss: empty tags were written without blanks only -> `, ,` / `( , X` / `X , )` / leading and trailing forms",
    "C03-c": "first miss: one-shot identification only -> E2 histories on one live tag (read, set extension, replace placeholder, copy)",
    "C03-d": "first miss: one schema per object -> histories include validation under a second schema in which the tag moved",
    "C04-c": "first miss: pool had no reserved tags -> reserved family (pairs / triples of Duration, Delay, Onset... entries)",
    "C04-d": "first miss: same -> reserved family, top-level permutations",
    "C05-d": "first miss: descriptions had no Unicode line-boundary characters -> U+2028 / U+2029 / U+0085 description",
    "C06-c": "first miss: value cells without backslashes -> cell `fa\\fam\\d1\\1`",
    "C06-d": "first miss: no template with the same reference twice -> `({R}), (Circle, {R})`",
    "C07-c": "first miss: column labels checked for TAG_INVALID only -> location rule for every issue",
    "C08-d": "first miss: top-level HED key seeded with object values only -> every JSON value type",
    "C10-d": "first miss: files never held a row that fails validation -> bystander rows (this also exposed defect 30)",
    "C11-d": "first miss at quick tier (thorough had `+2`, `1E-2`) -> `+2`, `3E+2` in the quick literal menu",
    "C12-c": "first miss: strings were validated as built -> E2 histories (expand / shrink / copy / sort, then validate)",
    "C12-d": "first miss: ascending sort only -> `reverse=True` against the stable reference",
    "C13-c": "first miss: schemas loaded fresh per configuration -> E2 prefix histories on one schema object",
    "C13-d": "first miss: only `xx:`, `s1:`, case variants through tags -> prefix boundary values through six entry points",
    "C14-c": "first miss: changed hedId seeded on tags only -> on units, unit classes, modifiers, value classes, attributes",
    "C14-d": "first miss: duplicates seeded on tags only -> bare / described / verbatim duplicates in every section",
    "C15-c": "first miss: `{a: b}` judged by laws only -> reference for atomic `{a: b}` on its unambiguous domain",
    "C15-d": "first miss: batch interface without gaps -> None / empty entries at every position",
    "C16-d": "first miss: excluded directories only at the root -> `sub-01/derivatives`, `sub-01/code` with files",
    "C17-c": "first miss: unique map keys only -> a key listed twice before the used keys",
    "C17-d": "first miss: dispatcher histories over same-shaped tables -> a table with an extra column",
    "C18-c": "first miss: one backup per history -> repeated backup requests (explicit / omitted / empty name)",
    "C18-d": "first miss: neutral directory names -> data root named `..._task_stop_pilot`",
    "C19-c": "first miss: lock identified by path, two holders -> lock attached to the opened file + three holders (H4c)",
    "C19-d": "first miss: write seam ignored exclusive-create -> `x` / `a` modes modelled; H0's stale temporary copy has the loader's pid",
    "C20-d": "first miss: observers called once on a fresh manager -> E2 observer histories",
    # third wave
    "C01-e": "first miss: one interpreter, one hash seed -> `core.hash_sweep`: the reserved templates under 9 (thorough 25) PYTHONHASHSEED values, plus Delay + Event-context templates",
    "C01-f": "first miss: bad units were `zzq` / a foreign class -> unit texts from the C11 grammar oracle (plural of a symbol, unit before the number, word between)",
    "C03-e": "first miss: no generated node with both a `#` child and named children -> added to the generated schema",
    "C03-f": "first miss: bulk cells were distinct after case folding -> cells differing only in the case of a value / extension / unknown tag",
    "C04-e": "first miss: reserved family had no Delay + non-temporal pair -> `[DLY, EC, [R]]`, `[DUR, EC, [R]]` entries",
    "C05-e": "first miss: every state was loaded from merged XML -> second generation: saves of the schemas reloaded from unmerged saves",
    "C05-f": "first miss: TSV saves went to a fresh directory -> re-save in the other mode into the same directory",
    "C06-f": "first miss: histories compared only the final `series_a` -> every call's answer against a fresh object's, `assemble(skip_curly_braces=True)` in the alphabet, handed-out frames kept",
    "C07-e": "first miss: no sheet without a header row -> F8 (SpreadsheetInput, numbered columns)",
    "C08-e": "first miss: brace contents were ASCII -> brace texts with non-ASCII letters / digits, blanks, empty",
    "C08-f": "first miss: every sidecar validated once -> E2 histories on one Sidecar object with in-place edits (same top-level keys)",
    "C09-e": "first miss: unprefixed schema only -> the same histories under `ts:8.3.0` with every tag prefixed",
    "C10-f": "first miss: a fresh validator per file -> sequences of files through one SpreadsheetValidator",
    "C11-f": "first miss: prefix-type units only were tried before the number -> every plain unit before the number",
    "C12-f": "first miss: planted `$` never followed a colon in the same tag -> `Item/ab:cd$`, `Item/Started-12:30:15/x$y`, `Foo:bar$`",
    "C13-e": "first miss: six hand-picked refusals -> every ordered pair of bundled schemas under one prefix, clash derived from their XML",
    "C14-e": "first miss: foreign name `otherlib` only -> fragments and variants of the library's own name",
    "C15-e": "first miss: annotations in short form only -> long-form and case-changed renderings must give the same answers",
    "C15-f": "first miss: group-scoped conjunctions judged by laws only -> references for `{a && b}` (same level) and `[a && b]` (descendants); both agree with the library on 4.2 M cases",
    "C16-e": "first miss: events files only below `sub-XX/` -> an events file in the dataset root",
    "C16-f": "first miss: CLI run without options -> `--check-for-warnings`, `-f json`, `-f json_pp`",
    "C17-f": "first miss: faults of the JSON-schema stage only -> data-level faults at every position of lists holding a sound operation of the same type",
    "C18-e": "first miss: remodel only with a backup of every file -> partial backups (run must be refused, refused run leaves allowed contents only)",
    "C18-f": "first miss: lower-case directory names -> `sub-02/EEG/`",
    "C19-e": "first miss: the lock model ignored `fail_when_locked` -> modelled (conformance trace 9)",
    "C19-f": "first miss: the network seam replaced `url_to_file` itself -> H7: the real `url_to_file` over a fake response cut after k bytes",
    "C20-e": "first miss: no Inset items -> `inset` item (needs an open process; stays in the remaining annotation)",
    "C20-f": "first miss: Onset with content group only in the thorough menu -> in the quick menu",
    # fourth wave
    "C01-g": "first miss: each schema object used under one prefix only -> E2 prefix histories on one schema object (verdicts before / under / after a prefix change)",
    "C01-h": "first miss: no Def-expand carrying a value its definition does not take -> `def-expand-extra-value` fault kind with its published code",
    "C03-g": "first miss: no value with a colon followed by a slash -> value `/a:b/c d`",
    "C03-h": "first miss: the base-tag setter was never driven -> `rebase_check`: setting `short_base_tag` to its own value (plain and prefixed tags) changes no form",
    "C04-g": "first miss: Def-expand groups always led with the tag -> reserved family entries with the contents group before `Def-expand/...`",
    "C04-h": "first miss: at most one faulty Def per annotation -> entries with an unknown `Def/Nope` placed before / after sound ones (every sibling order)",
    "C05-g": "first miss: every `#` node of the edit alphabet carried takesValue -> edit `add-value-taking-node:no-takesValue`",
    "C05-h": "first miss: multi-valued attributes compared as joined text -> STRICT_VALUE_LISTS: one XML element per value, compared as lists",
    "C07-g": "first miss: input objects were validated once -> F10 edit histories (in-place cell / column edits between assemblies and validations)",
    "C07-h": "first miss: `Delay` written in one case, and never where the delayed position decides -> F4b: an Offset delayed past its Onset (and the reverse) under `Delay` / `DELAY` / `delay` / `dElAy`",
    "C08-h": "first miss: at most one `#` per tag -> two `#` in one tag (`Label/##`, `Label/#-#`)",
    "C09-h": "first miss: definitions whose sorted order does not depend on the value -> `(Label/#, Label/m)` and `((Speed/# mph, Square), (Speed/5 mph, Triangle))` with values either side of the sibling",
    "C10-g": "first miss: rows of one time point always differed in text -> byte-identical rows at one time point",
    "C10-h": "first miss: default error handler only -> the same files with `check_for_warnings=True` (rows with warnings only stay in the time-ordered pass)",
    "C11-h": "first miss: one schema order per process -> `order_check`: ORDER_FILES forward / reverse in sub-processes (`core.hash_sweep`)",
    "C13-g": "first miss: values without `:` ... `/` -> `Description/a:b/c`, `ID/run:1/2` in the text pool",
    "C13-h": "first miss: lower-case prefixes only -> `Tl:` / `SC:` assigned in the first pairing",
    "C14-h": "first miss: either duplicate code accepted -> SCHEMA_DUPLICATE_NODE required for a duplicate inside one library section",
    "C16-g": "first miss: every sidecar had a column-level HED key -> a lone root sidecar whose only HED keys sit inside `Levels`",
    "C17-g": "first miss: rename maps without overlap of old and new names -> swap `a<->b` and chain `a->b, b->c`",
    "C17-h": "first miss: two-column keys never concatenated to equal text -> `('a','12')` vs `('a1','2')` keys with tables holding both",
    "C18-h": "first miss: backups stayed complete -> a recorded copy (or its directory) removed before a new manager is built",
    "C20-g": "first miss: every Duration group had its own content -> `dur-fixed` items: distinct processes whose listed text is identical",
    "C20-h": "first miss: unordered onsets were numeric only -> every onset triple with n/a whose numeric onsets decrease",
    # fifth wave
    "C01-i": "first miss: one validation per validator state was never compared with a fresh validator -> `validator_history_check`: the same value text under tags of different value classes, in both orders on one HedValidator and together in one annotation",
    "C01-j": "first miss: prefix histories only used prefixed annotations -> under a prefix an unprefixed tag must be TAG_NAMESPACE_PREFIX_INVALID",
    "C02-i": "first miss: no bounded alphabet spells `n/a` -> MAGIC_TEXTS (missing-value words as the whole annotation, padded, in groups)",
    "C02-j": "first miss: enumeration reaches depth 3-5 -> nesting depths 8 ... 200 (around 100 densely)",
    "C03-i": "first miss: forms of a valued tag equal those of its parent node -> the node must be the `#` child and value-taking; generated node `Zq-level` with its own extensionAllowed and a `#` child",
    "C05-i": "first miss: no description with `&` / `#` -> description mentioning the entity `&#8203;`",
    "C05-j": "first miss: no description with a backslash -> `C:\\new_data`, `\\nu`, `\\t`, trailing backslash",
    "C06-i": "first miss: the sidecar of a table object never changed -> `mapper_reset_check`: every sequence (depth 3) of sidecar replacements through `reset_column_mapper`",
    "C06-j": "first miss: every template named all referenced columns, targets were of mixed kinds -> `cat2ref-split` (each entry names one of two references) with two value columns as targets",
    "C07-i": "first miss: onset cells were numbers or n/a -> F6b: `abc`, `1,5`, `--`, `1_000` in the onset column",
    "C07-j": "first miss: rows without a time only in files otherwise in time order -> every file order of the F6 / F6b rows",
    "C08-i": "first miss: `value-column-no-placeholder` used `Red` -> also the empty string, a blank, `n/a`",
    "C08-j": "first miss: referenced columns had lower-case names -> `Phase`, `trial_Phase2`, `PHASE` referenced from `(Def/Dd, {Phase})` with entries `Onset` / `Offset`",
    "C09-i": "first miss: duplicate names were ASCII -> `Straße`, `Maß` / `MASS`, `ﬁx` / `FIX`, Greek final sigma",
    "C10-i": "first miss: delays only in `s` / `ms` and never across a time point -> `delay-crossing(-prefix)`: a group written before the previous time point, delay in `Ms` (factor read from the XML)",
    "C10-j": "first miss: failing rows only in files in time order -> `unsorted_files`: every file order of rows with a failing marker row, and a row without a time at every position",
    "C11-j": "first miss: no literal ending in a bare decimal point -> `3.`, `12.e1` (thorough `-12.`, `3.e2`)",
    "C12-i": "first miss: spreadsheet cells were never blank-only -> cells ` ` / two blanks before `(Red, Red)` / `Label/a$b`",
    "C13-i": "first miss: every configuration had an unprefixed member or was a group -> single schemas loaded as `sc:<version>`: unprefixed tags are errors",
    "C13-j": "first miss: schemas always came from the complete cache -> two libraries under one prefix from a folder that holds only the first file",
    "C14-j": "first miss: `defaultUnits` seeded with a made-up unit -> a real unit of another unit class",
    "C15-i": "first miss: changed annotations only through expand / shrink / copy -> `replace-defs` (what `HedTagManager.get_hed_objs(replace_defs=True)` does) and queries across the replaced part",
    "C15-j": "first miss: the grammar nests binary operators with parentheses -> `chain_check`: unparenthesised chains of 3 and 4 operands",
    "C16-i": "first miss: events files at most two directories deep -> `sub-01/ses-1/eeg/` with sidecars in the session directory",
    "C17-i": "first miss: where the reference refuses, any library behaviour was accepted -> `MustRaise`: `remap_columns` with `ignore_missing` false and an unlisted source value must fail (also when only row 0 has it)",
    "C18-i": "first miss: one backup name per history -> `named_backups_check`: two names, edits and restores in every order through one manager object and through fresh ones",
    "C18-j": "first miss: no path component began with a dot -> `.sourcedata/...`, `.pilot_events.tsv` next to `pilot_events.tsv`",
    "C20-j": "first miss: one value per value-taking definition -> `Def/B/x` and `Def/B/y` Onset / Offset items",
    # sixth wave (p = strengthened from the sub-agent's report before the first matrix run, so counted as a first miss)
    "C01-k": "first miss: character faults only in values with a value class -> value-taking tags whose `#` declares no class (`Keyboard-key/a$b`)",
    "C01-l": "first miss: valid numeric values had no exponent -> `1E3`, `2.5E-2`, `1e3` on every numericClass tag",
    "C02-l": "first miss (p): the original form was printed through `get_as_form('org_tag')` only -> `get_as_original()` as a fifth printed form",
    "C03-k": "first miss (p): no empty value -> VALUES `/` (a slash and nothing after it)",
    "C03-l": "first miss (p): values had slashes only in the middle -> `/data/raw/`, `//x`",
    "C04-l": "first miss: copies sat at top level or in a group with a sibling -> `double` wrapping `((G, G, ...))`",
    "C05-k": "first miss: refusal checked for differently named libraries only -> `testlib_2.0.0,testlib_3.0.0` (either order), a prefixed merge, the unmerged savers",
    "C05-l": "first miss: one locale -> `locale_check`: file saves of a schema with non-ASCII descriptions in child interpreters under `LC_ALL=C` (UTF-8 mode off) and UTF-8 mode",
    "C06-k": "first miss (p): frames had object columns -> the frame with missing cells once more with categorical columns",
    "C06-l": "first miss (p): a sidecar was one document -> `sidecar_list_check`: lists of two / three files against `{**first, **second}`",
    "C08-k": "first miss (p): definition columns had one definition per entry -> entries with 2 / 1 / 3 definitions",
    "C08-l": "first miss (p): value columns without `#` held no reference -> `({kind}, Label/Fixed)` naming a column nobody else references",
    "C09-l": "first miss (p): bulk cells spelled `Def` canonically -> `def/`, `DEF/`, `dEf/`, `def-expand/` cells",
    "C10-l": "first miss (p): a delayed marker occurred once per row -> the same delayed marker twice in one row (identical / other letter case)",
    "C12-l": "first miss: sort labels were distinct after case folding -> files `Sub-01.tsv` / `sub-01.tsv`, columns `Cue` / `cue`: groups stay contiguous",
    "C15-l": "first miss: `||` was judged at top level and in chains -> `(a || b) && c` against `(b || a) && c` with negations, on annotations with two groups",
    "C16-k": "first miss: root sidecars had shorter paths than deeper ones -> task label `Adiscriminationlong`",
    "C17-l": "first miss: destination values were plain words -> `don't respond`, `\"hold\"`",
    "C18-k": "first miss: every edit changed the file's length and time -> `modify-keep` (same length, modification time put back)",
    "C18-l": "first miss: remodel always ran on all tasks -> `remodel -t go` (the restore step goes by `task_go`; the run finds no `task-go` file)",
    "C19-k": "first miss: one refresh per process -> H9: histories of up to three refreshes with the cached file left / torn / replaced / deleted in between",
    "C19-l": "first miss: both lock holders were of one kind -> H4m: a holder that records the refresh time beside one that does not",
    "C20-l": "first miss: observers were only compared with fresh managers -> every item of a context must occur in the start list of an earlier entry; a file with type tags inside groups with other content",
    # seventh wave (p = strengthened from the sub-agent's report before the first matrix run)
    "C01-m": "first miss: with placeholders allowed every case had one tag -> `Label/#, Weight/3.5 zzq`: a placeholder elsewhere excuses nothing",
    "C01-n": "first miss: quick tier had no unpartnered old-style library -> `testlib_1.0.2` in the quick schemas (the thorough tier had it)",
    "C03-m": "first miss: the text of a live tag was never replaced -> `respell_check`: `tag.tag = <same tag, other letter case>` against a fresh tag",
    "C03-n": "first miss (p): no value repeated a term of the tag's own path -> `/Label` after `Label`, a prefix of the parent's name",
    "C04-m": "first miss: one misplaced reserved tag per group -> `(Red, (Onset, Event-context))`, three in one group",
    "C04-n": "first miss: no text shared by tags of different value classes -> `Description/Left side`, `Label/Left side`",
    "C05-m": "first miss: every schema had prologue and epilogue -> edits `clear-prologue`, `clear-epilogue`, both (which exposed defect 75)",
    "C05-n": "first miss: TSV directories were given without a trailing separator -> save / load of `dir/`",
    "C06-n": "first miss: every level of a categorical column was annotated -> `catempty` (`\"rest\": \"\"`)",
    "C07-m": "first miss: one file per validator object -> `file_sequence_check`: sequences of 2-3 files through one SpreadsheetValidator",
    "C07-n": "first miss (p): tag columns were always asked for by their exact name -> F8c: `hed` for a header `HED`",
    "C08-n": "first miss (p): a stray `}` never came before the first `{` -> `Red}, {val}`",
    "C09-m": "first miss: duplicates only within one dictionary -> two dictionaries merged (`DefinitionDict([d1, d2])`)",
    "C09-n": "first miss (p): altered content was always written after the tag -> `((content), Def-expand/Name)`",
    "C10-m": "first miss: onsets were small numbers -> seconds since 1970 with rows 0.125 s / 0.001 s apart",
    "C10-n": "first miss: onsets had one digit before the point -> `3.0, 9.0, 10.0, 20.0, 100.0` in every file order",
    "C12-m": "first miss: offsets were checked without a namespace -> `sc:Item/Foo/Red` and friends under `sc:8.3.0`",
    "C13-n": "first miss: the same library twice only as two list entries -> `testlib_2.0.0,testlib_2.0.0` inside one entry",
    "C14-n": "first miss: out-of-range ids were non-zero -> `HED_0000000`",
    "C15-m": "first miss (p): laws never counted -> one atom k times matches iff k tags match it",
    "C15-n": "first miss (p): batches of queries were all well-formed -> a malformed query before well-formed ones",
    "C17-m": "first miss (p): merged runs had equal durations -> durations 1, 10, 1",
    "C18-m": "first miss: the trees used the `task_go` form `BackupManager` understands, on which a task-filtered run does nothing -> `bids_named_check`: files named `task-go`, one of them untouched by the operations, edits after the backup, `remodel -t go` once and twice",
    "C19-n": "first miss: nothing watched *where* the lock ends -> H6 monitor: every download by the refresher happens while it holds the lock",
    "C19-h": "first miss: at most two refresh attempts per directory -> every history of <= 4 gaps from {1 s, T-1, T, 2T} against a one-number model",
}


def main():
    rows = {}
    for line in open(sys.argv[1]):
        parts = line.rstrip("\n").split("\t")
        if len(parts) >= 4:
            rows.setdefault(parts[0], []).append(parts[1:])
    only = sys.argv[2:] and sys.argv[2]
    for name in sorted(rows):
        if only and not name.endswith(tuple(only.split(","))):
            continue
        meta = json.load(open(os.path.join(VERIF, "seeded", name, "meta.json")))
        what = " ".join(str(meta.get("summary", "")).split())[:150].replace("|", "/") + "..."
        res = []
        for chk, status, detail in rows[name]:
            fp = detail.split("fingerprint: ")[1].split("  cases")[0] if "fingerprint: " in detail else ""
            if status == "SUPERSEDED":
                res.append("superseded: " + detail[:160].replace("|", "/"))
                continue
            res.append(f"{status} by {chk}" + (f": `{fp}`" if fp else ""))
        print(f"| {name} | {what} | {'; '.join(res)} | {NOTES.get(name, '')} |")


if __name__ == "__main__":
    main()
