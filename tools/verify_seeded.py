#!/venv/bin/python
"""Confirm seeded changes delivered by independent sub-agents and file them under /verif/seeded/<ID>-<x>/.

For each candidate directory (patch.diff, demo.py, meta.json):
  1. fresh scratch worktree of /repo HEAD under /tmp/wt/verify-<k>
  2. demo on the clean tree must exit 0
  3. git apply patch; demo must exit non-zero; the repository suite must still pass (baseline set)
  4. worktree removed
usage: verify_seeded.py [--jobs N] CANDIDATE_DIR...
"""
import json
import os
import shutil
import subprocess
import sys
from concurrent.futures import ThreadPoolExecutor

VERIF = os.path.dirname(os.path.dirname(os.path.abspath(__file__)))
PY = "/venv/bin/python"


def sh(cmd, cwd=None, timeout=1800):
    p = subprocess.run(cmd, cwd=cwd, shell=isinstance(cmd, str), capture_output=True, text=True, timeout=timeout)
    return p.returncode, (p.stdout + p.stderr)


def verify(cand, k, base="HEAD"):
    meta = json.load(open(os.path.join(cand, "meta.json")))
    pid = meta.get("property")
    mut = meta.get("mutant", os.path.basename(cand))
    name = f"{pid}-{mut}"
    wt = f"/tmp/wt/verify-{k}-{name}"
    res = {"name": name, "candidate": cand}
    sh(f"git -C /repo worktree remove --force {wt}")
    rc, out = sh(f"git -C /repo worktree add -q --detach {wt} {base}")
    if rc:
        res["error"] = out
        return res
    try:
        demo = os.path.join(cand, "demo.py")
        rc, out = sh([PY, demo], cwd=wt, timeout=900)
        res["demo_clean_rc"] = rc
        res["demo_clean_tail"] = out[-300:]
        rc, out = sh(["git", "apply", os.path.join(cand, "patch.diff")], cwd=wt)
        res["apply_rc"] = rc
        if rc:
            res["apply_out"] = out[-300:]
            return res
        rc, out = sh([PY, demo], cwd=wt, timeout=900)
        res["demo_mutant_rc"] = rc
        res["demo_mutant_tail"] = out[-400:]
        rc, out = sh([PY, "/tmp/wt/suite.py"], cwd=wt, timeout=1800)
        res["suite_rc"] = rc
        res["suite"] = out.strip().splitlines()[0] if out.strip() else ""
        res["confirmed"] = (res["demo_clean_rc"] == 0 and res["demo_mutant_rc"] != 0 and res["suite_rc"] == 0)
        if res["confirmed"]:
            dest = os.path.join(VERIF, "seeded", name)
            os.makedirs(dest, exist_ok=True)
            for f in ("patch.diff", "demo.py"):
                shutil.copyfile(os.path.join(cand, f), os.path.join(dest, f))
            meta["confirmed_by_me"] = {
                "base": sh("git -C /repo rev-parse --short " + base)[1].strip(),
                "demo_clean_rc": res["demo_clean_rc"], "demo_mutant_rc": res["demo_mutant_rc"],
                "suite": res["suite"],
                "ran": ["git apply patch.diff (scratch worktree)", "python demo.py (clean: rc 0, mutant: rc != 0)",
                        "pinned pytest suite compared with BASELINE.json stable_pass"],
            }
            meta["breaks"] = pid
            json.dump(meta, open(os.path.join(dest, "meta.json"), "w"), indent=1)
    finally:
        sh(f"git -C /repo worktree remove --force {wt}")
        shutil.rmtree(wt, ignore_errors=True)
    return res


def main():
    args = sys.argv[1:]
    jobs = 4
    base = "HEAD"
    if args and args[0] == "--jobs":
        jobs = int(args[1])
        args = args[2:]
    if args and args[0] == "--base":
        base = args[1]
        args = args[2:]
    with ThreadPoolExecutor(jobs) as ex:
        futs = [ex.submit(verify, c.rstrip("/"), k, base) for k, c in enumerate(args)]
        for f in futs:
            r = f.result()
            print(json.dumps(r)[:900])
            sys.stdout.flush()


if __name__ == "__main__":
    main()
