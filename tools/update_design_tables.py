#!/venv/bin/python
"""update_design_tables.py MATRIX.txt : (re)write the tables of waves 4-9 in DESIGN.md after the <!-- WAVE-TABLES --> marker."""
import os
import subprocess
import sys

VERIF = os.path.dirname(os.path.dirname(os.path.abspath(__file__)))
WAVES = [("Fourth wave", "-g,-h"), ("Fifth wave", "-i,-j"), ("Sixth wave", "-k,-l"), ("Seventh wave", "-m,-n"), ("Eighth wave", "-o,-p"), ("Ninth (half) wave", "-q")]


def main():
    matrix = sys.argv[1]
    path = os.path.join(VERIF, "DESIGN.md")
    text = open(path).read()
    marker = "<!-- WAVE-TABLES -->"
    head = text.split(marker)[0]
    out = [head.rstrip("\n"), "", marker, ""]
    for title, suffixes in WAVES:
        rows = subprocess.run([sys.executable, os.path.join(VERIF, "tools", "seeded_table.py"), matrix, suffixes],
                              capture_output=True, text=True, check=True).stdout.strip()
        out += [f"#### {title} (`{suffixes.replace(',', '`, `')}`)", "",
                "| change | what it does | result (quick tier) | strengthened |", "|---|---|---|---|", rows, ""]
    open(path, "w").write("\n".join(out) + "\n")


if __name__ == "__main__":
    main()
