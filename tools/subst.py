#!/venv/bin/python
"""subst.py FILE OLD_FILE NEW_FILE : replace exactly one occurrence, preserving the file's line endings."""
import sys
path, oldf, newf = sys.argv[1:4]
raw = open(path, newline='').read()
crlf = '\r\n' in raw
old = open(oldf).read()
new = open(newf).read()
if old.endswith('\n') and not new.endswith('\n'):
    new += '\n'
if crlf:
    old = old.replace('\r\n', '\n').replace('\n', '\r\n')
    new = new.replace('\r\n', '\n').replace('\n', '\r\n')
n = raw.count(old)
if n != 1:
    sys.exit(f"expected exactly one occurrence, found {n}")
open(path, 'w', newline='').write(raw.replace(old, new))
print("replaced in", path, "(CRLF)" if crlf else "(LF)")
