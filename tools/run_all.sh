#!/bin/bash
# run every check's quick (or $1) tier; print one line per check.  usage: tools/run_all.sh [quick|thorough] [seed]
cd "$(dirname "$0")/.."
tier="${1:-quick}"; seed="${2:-0}"
rc_all=0
for i in 01 02 03 04 05 06 07 08 09 10 11 12 13 14 15 16 17 18 19 20; do
  start=$(date +%s)
  out=$(VERIF_SEED=$seed ./check C$i --tier $tier 2>&1); rc=$?
  end=$(date +%s)
  echo "C$i rc=$rc $((end-start))s $(echo "$out" | grep -c '^VIOLATION') violations; $(echo "$out" | grep -c '^KNOWN-FINDING') known; $(echo "$out" | tail -1 | cut -c1-160)"
  [ $rc -ne 0 ] && rc_all=1 && echo "$out" | grep -A2 "^VIOLATION\|HARNESS" | head -12
done
exit $rc_all
