#!/venv/bin/python
"""Run checks against seeded changes in scratch worktrees (never in /repo).
usage: run_seeded.py [--tier quick] [--jobs N] NAME[:CHECK,CHECK...] ...     e.g.  C10-a  C07-b:C07,C10,C20
Default checks for NAME = the property in its meta.json.  Prints one line per (seeded change, check)."""
import json
import os
import shutil
import subprocess
import sys
from concurrent.futures import ThreadPoolExecutor

VERIF = os.path.dirname(os.path.dirname(os.path.abspath(__file__)))


def sh(cmd, cwd=None, env=None, timeout=7200):
    p = subprocess.run(cmd, cwd=cwd, shell=isinstance(cmd, str), capture_output=True, text=True, timeout=timeout, env=env)
    return p.returncode, p.stdout + p.stderr


def run_one(spec, tier, k):
    name, _, checks = spec.partition(":")
    d = os.path.join(VERIF, "seeded", name)
    meta = json.load(open(os.path.join(d, "meta.json")))
    checks = checks.split(",") if checks else [meta["property"]]
    if meta.get("superseded"):
        return [(name, meta["property"], "SUPERSEDED", meta["superseded"][:200])]
    wt = f"/tmp/wt/run-{k}-{name}"
    sh(f"git -C /repo worktree remove --force {wt}")
    rc, out = sh(f"git -C /repo worktree add -q --detach {wt} HEAD")
    res = []
    try:
        rc, out = sh(["git", "apply", "--3way", os.path.join(d, "patch.diff")], cwd=wt)
        if rc:
            return [(name, "-", "PATCH-DOES-NOT-APPLY", out[-200:])]
        env = dict(os.environ, VERIF_REPO=wt, VERIF_EVIDENCE_DIR=f"/dev/shm/seeded-ev/{name}",
                   VERIF_REPLAY_DIR=f"/dev/shm/seeded-replays/{name}", VERIF_WORKERS=os.environ.get("VERIF_WORKERS", "8"))
        for c in checks:
            rc, out = sh([os.path.join(VERIF, "check"), c, "--tier", tier], cwd=VERIF, env=env)
            viol = [l for l in out.splitlines() if l.startswith("VIOLATION")]
            fps = [l.strip() for l in out.splitlines() if l.strip().startswith("fingerprint:")]
            status = "DETECTED" if rc == 1 and viol else ("missed" if rc == 0 else f"rc={rc}")
            res.append((name, c, status, "; ".join(fps[:3])[:300] if fps else out[-300:].replace("\n", " | ")))
    finally:
        sh(f"git -C /repo worktree remove --force {wt}")
        shutil.rmtree(wt, ignore_errors=True)
    return res


def main():
    args = sys.argv[1:]
    tier, jobs = "quick", 2
    while args and args[0].startswith("--"):
        if args[0] == "--tier":
            tier = args[1]
        elif args[0] == "--jobs":
            jobs = int(args[1])
        args = args[2:]
    if not args:
        args = sorted(n for n in os.listdir(os.path.join(VERIF, "seeded")) if os.path.isdir(os.path.join(VERIF, "seeded", n)))
    with ThreadPoolExecutor(jobs) as ex:
        for fut in [ex.submit(run_one, a, tier, k) for k, a in enumerate(args)]:
            for r in fut.result():
                print("\t".join(r))
                sys.stdout.flush()


if __name__ == "__main__":
    main()
