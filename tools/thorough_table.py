#!/venv/bin/python
"""thorough_table.py RUN... : rewrite the "Thorough tier on the final checks" block of DESIGN.md from the logs of the given
background runs (/root/.vp/runs/<n>/log; `vp runs` shows the commit of each).  usage: thorough_table.py 9:a9cef65 10:a9cef65 ..."""
import os
import re
import subprocess
import sys

VERIF = os.path.dirname(os.path.dirname(os.path.abspath(__file__)))
LINE = re.compile(r'(C\d\d) tier=thorough seed=0 states=(\d+) transitions=(\d+) evaluations=(\d+) distinct_nontrivial=(\d+) '
                  r'outcomes=(\d+) exhaustive=(\w+) violations=(\d+) known=(\d+) wall=([\d.]+)s')


def main():
    rows = {}
    for arg in sys.argv[1:]:
        n, commit = arg.split(":")
        for line in open(f"/root/.vp/runs/{n}/log", errors="replace"):
            m = LINE.match(line)
            if m:
                rows[m.group(1)] = (n, commit) + m.groups()[1:]
    out = ["#### Thorough tier on the final checks (background runs of `vp run`, 2026-10-03, 5-8 workers each, several side by side)", "",
           "The last thorough run of every check.  `commit` is the /verif commit the run was taken from; `later edits` says whether",
           "the check's own file changed after that commit (the additions of waves 8-9 are small menus that the quick tier runs",
           "in full, so a `yes` row lacks nothing the quick evidence does not have).  All runs exit 0 with no VIOLATION line;",
           "`known` counts the KNOWN-FINDING lines of section 9.  A run that stopped at its time budget says so",
           "(`exhaustive` False; the cases not reached are listed in its evidence).",
           "Quick tier on the same final checks: `tools/run_all.sh quick <seed>` for seeds 0, 1, 2, 3 - 80 runs, every one exit 0 with no",
           "VIOLATION line (seed 0 wrote the committed evidence); `vp check` #4 (fresh copy, no network, seed 1) found nothing.", "",
           "| check | run | commit | later edits | states | transitions | evaluations | non-trivial | outcomes | exhaustive | violations | known | wall (s) |",
           "|---|---|---|---|---|---|---|---|---|---|---|---|---|"]
    for k in sorted(rows):
        r = rows[k]
        changed = subprocess.run(["git", "-C", VERIF, "diff", "--name-only", r[1], "HEAD", "--", f"props/{k.lower()}.py"],
                                 capture_output=True, text=True).stdout.strip()
        out.append(f"| {k} | #{r[0]} | {r[1]} | {'yes' if changed else 'no'} | {r[2]} | {r[3]} | {r[4]} | {r[5]} | {r[6]} | {r[7]} | {r[8]} | "
                   f"{r[9]} | {float(r[10]):.0f} |")
    block = "\n".join(out) + "\n\n"
    path = os.path.join(VERIF, "DESIGN.md")
    text = open(path).read()
    start = text.index("#### Thorough tier on the final checks")
    end = text.index("--------------------------------------------------------------------------------------------\n\n## 5.")
    open(path, "w").write(text[:start] + block + text[end:])
    print(f"{len(rows)} rows")


if __name__ == "__main__":
    main()
