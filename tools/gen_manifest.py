#!/venv/bin/python
"""Regenerate MANIFEST.json from the table below (kept valid against /root/.vp/MANIFEST.schema.json)."""
import json
import os

VERIF = os.path.dirname(os.path.dirname(os.path.abspath(__file__)))

E1 = "bounded exhaustive enumeration (small-scope) executed on the implementation"
E2 = "explicit-state breadth-first search over operation histories on the implementation"
E3 = "stateless schedule / crash-point exploration with a deviation bound on the implementation"

CHECKS = {
    "C01": dict(engine="E1", cat="model_checking", design="4/C01",
                technique="bounded exhaustive enumeration over the full schema vocabulary and all small tree shapes, "
                          "with every single-rule mutation; oracle from an independent XML reading of the schema",
                text="Every non-reserved tag of every bundled schema (from an independent xml.etree model) in every "
                     "spelling and 6 contexts must validate without error; every tag-level single-rule mutation, every "
                     "tree up to the size bound over a collision pool (duplicates => TAG_EXPRESSION_REPEATED), every "
                     "delimiter / character mutation at every position and reserved-tag templates must be reported with the "
                     "specification code of the rule; both placeholder settings; two validation entry points.",
                note="expected codes are my reading of the HED specification (either code accepted where two apply); "
                     "trees above the bound and value literals outside the finite menu are not covered; warnings not judged"),
    "C03": dict(engine="E1", cat="model_checking", design="4/C03",
                technique="complete enumeration of the schema vocabulary x spellings x case x prefix x suffix against an "
                          "independent XML model",
                text="For every node of every bundled schema (plus prefixed loads, the merged multi-library load and a "
                     "generated schema) every suffix-path spelling in 4 case variants with and without value/extension is "
                     "identified as the expected node with the expected canonical long/short forms; long/short conversion "
                     "is checked to be mutually inverse and idempotent; the bulk DataFrame interface must agree.",
                note="vocabulary complete; suffix/case menus finite; non-ASCII case mappings that do not round-trip excluded"),
    "C04": dict(engine="E1", cat="model_checking", design="4/C04",
                technique="bounded exhaustive enumeration of trees x all spelling/spacing/order rewrites, differential "
                          "comparison of error-code multisets on the implementation",
                text="Every tree up to the bound over a 9-leaf pool of valid and invalid leaves is validated and compared "
                     "with every single-leaf respelling, spacing variant and sibling permutation of it; the duplicate family "
                     "(every small subtree, every recursive reordering, 0-2 extra siblings, every arrangement, top level and "
                     "nested) must report the repetition in every arrangement.",
                note="pure differential (no hand-written expectation); only error-severity codes; value text is never "
                     "respelled (the statement speaks of tag names)"),
    "C02": dict(engine="E1", cat="model_checking", design="4/C02",
                technique="exhaustive enumeration of all token strings up to a length bound, reference-parser oracle",
                text="Every string of <= N tokens over the delimiter alphabet (plus literals discovered in the tokenizer "
                     "source, plus an extended alphabet at smaller N) is parsed by the real HedString and compared with "
                     "an independent reference parser: totality, tag/group spans, nesting, print/re-parse identity in "
                     "three forms, empty tree + PARENTHESES_MISMATCH when unbalanced. Complete below the bound.",
                note="strings longer than the bound and code points outside the extended alphabet rely on the "
                     "alphabet-abstraction argument; schema 8.3.0 only (tokenisation is schema independent)"),
}

CHECKS["C10"] = dict(engine="E2", cat="model_checking", design="4/C10",
                     technique="explicit-state exploration of all event histories up to a length bound on the real "
                               "validator, step-by-step agreement with a reference state machine",
                     text="All histories of Onset/Offset/Inset markers over 5 name spellings (3 scopes) are replayed on a "
                          "fresh OnsetValidator (single-marker time points to length 4/5, the full 240-symbol one-or-two-"
                          "marker alphabet to length 1/2 plus one step); after every transition the flagged marker groups and "
                          "the open-scope set must equal a reference machine (all 8 open-scope states reached). End to end, "
                          "files realising all histories to length 2/3 in every realisation (one row, equal-onset rows, "
                          "Delay-shifted, mixed) must report the same number of temporal errors on rows of the offending "
                          "time point.",
                     note="histories longer than the bound; the reference machine is my reading of the statement; "
                          "state agreement reads the validator's _onsets mapping when it exists")

CHECKS["C09"] = dict(engine="E2", cat="model_checking", design="4/C09",
                     technique="breadth-first exploration of all operation histories up to a depth bound on real objects "
                               "(replay-by-rebuild) against a nested-list reference model; exhaustive candidate grammar "
                               "for acceptance",
                     text="Every history of <= 4 (thorough 6) operations from {expand, shrink, copy-and-continue, validate, "
                          "print, sort} on 12 start annotations (plain / valued / unit-valued / nested / empty definitions, "
                          "already expanded groups, unknown Def) is executed on a fresh HedString and compared after every "
                          "step with a reference model (canonical tree up to sibling order, originals of copies unchanged, "
                          "no cycles). All 1344 definition candidates of the shape grammar are judged against the "
                          "statement's literal acceptance predicate through both entry points, all ordered duplicate pairs, "
                          "and every permutation / single edit of each expansion for Def-expand acceptance.",
                     note="definition menu fixed (5 definitions over schema 8.3.0); the 'must accept' direction is judged "
                          "only for definitions with no '#' or exactly one on a value tag")

CHECKS["C11"] = dict(engine="E1", cat="model_checking", design="4/C11",
                     technique="complete enumeration of (tag, unit, modifier, spelling form, literal) combinations per "
                               "schema with an independent derivation-set oracle",
                     text="For every bundled schema every value-taking tag with unit classes is combined with every unit of "
                          "its classes, every one of the 40 modifiers (permitted or not), 5 spelling forms and 4 (thorough 8) "
                          "numeric literals, plus every unit of every other class and nonsense units; the oracle derives from "
                          "the XML the set of readings of each unit text: accepted <=> non-empty; rejected => UNITS_INVALID; "
                          "accepted with a declared factor => value = number x factors, linear; unrecognised => None, "
                          "never an exception; bare number => only UNITS_MISSING; prefix-type units before the number.",
                     note="plural table hand-reviewed (names without entry: singular only); '^' read as 'e' in factors; "
                          "known finding: unit names containing a blank")

CHECKS["C15"] = dict(engine="E1", cat="model_checking", design="4/C15",
                     technique="bounded exhaustive enumeration of annotations x query expressions with algebraic laws and "
                               "reference base-case semantics; exhaustive token strings for parser totality",
                     text="Every forest up to the bound over {Event, Sensory-event, Red, Blue} (all sibling orders) is searched "
                          "with every atom and every unary/binary composition; base cases are compared with reference "
                          "semantics from the XML model (term on path, exact tag, short-form prefix, two witnesses for t && t); "
                          "Or law, And implies both, symmetry, associativity, distribution of && over ||, invariance under "
                          "sibling order, repeatability and purity are checked on all pairs/triples; every token string of "
                          "length <= 4 (thorough 5) over the 17-symbol query alphabet either compiles or raises ValueError, "
                          "unbalanced grouping never compiles; query_service agrees with the handlers.",
                     note="compound operands are judged by laws only; the distribution law is derived (a match of A is a match "
                          "of A || B), not literal in the statement")

CHECKS["C08"] = dict(engine="E1", cat="model_checking", design="4/C08",
                     technique="exhaustive enumeration of JSON documents of a layered grammar (every JSON type at every "
                               "layer), every-position replacement in a well-typed base, and every structural fault at every "
                               "applicable position",
                     text="~31k JSON documents (every JSON type as column entry / HED entry / category value, top-level "
                          "non-objects, every position of a 4-column base replaced by 25 smaller documents) are loaded and "
                          "validated: never an exception other than HedFileError for a non-object top level, result is a list "
                          "of well-formed issues; 13 fault kinds injected at every applicable position (all column orders for "
                          "nested references) must yield an error with the rule's code; valid sidecars in every column order "
                          "must be clean.",
                     note="document depth/width bounded by the layered grammar; for type faults the library's specific "
                          "sidecar type codes are accepted besides SIDECAR_INVALID")

CHECKS["C06"] = dict(engine="E1+E2", cat="model_checking", design="4/C06",
                     technique="exhaustive enumeration of sidecars x full cross-product tables against a reference assembly; "
                               "explicit-state histories of assembly calls on one object",
                     text="Every sidecar from the column-kind menu (plain categorical / value / ignored / non-object entries, "
                          "templates with a reference at each of 8-10 structural positions or two references, targets a "
                          "categorical column, a value column or HED; column names cover every character class) is applied to "
                          "a table whose rows are the full cross product of the per-column cell alphabets, in several column "
                          "and row orders; every assembled row must equal the reference assembly as a top-level multiset and "
                          "pass an independent delimiter scanner; histories of <= 2-3 calls of assemble/series_a/dataframe_a/"
                          "validate give the same answer and leave table text and sidecar dict unchanged; SpreadsheetInput "
                          "with tag columns and prefix dictionary likewise.",
                     note="<= 4 sidecar columns; cell alphabets finite; dtype-only drift of the input frame is observed, not "
                          "judged")

CHECKS["C07"] = dict(engine="E1", cat="model_checking", design="4/C07",
                     technique="bounded exhaustive enumeration of tables x all row permutations, differential against "
                               "string-level validation plus the C10 reference machine",
                     text="Every table of the four families (1x3, 2x1, 3x1, 2x2 over 14 cell kinds: valid, invalid, "
                          "repeated, cross-column repetition, extension, Delay, Duration, Onset/Offset/Inset, unknown "
                          "categorical key; Delay/Duration in 7 accepted unit spellings) is validated without onsets and with "
                          "distinct onsets in every row order: never raises; rows with clean cells report exactly the codes "
                          "of string-level validation of the assembled row (+ banned temporal tags / cross-row temporal "
                          "issues from the reference machine); other rows at least every per-cell error; every issue "
                          "carries its 1-based file row, cell errors their column, unknown keys their row and column; "
                          "permutations change only row labels plus exactly one ONSETS_UNORDERED warning.",
                     note="string-level validation of the library is the per-row reference (differential); rows sharing a "
                          "time point are left to C10; 'errors of a cell' = per-cell basic checks")

CHECKS["C20"] = dict(engine="E2", cat="model_checking", design="4/C20",
                     technique="explicit enumeration of all valid event histories up to a row bound on the real "
                               "EventManager, compared time point by time point with a reference interval model",
                     text="Every sequence of <= 3 (thorough 4; three-row histories over a reduced row menu, four-row histories over eight "
                          "row kinds) rows of 1-2 items (Onset/Offset of two names, Duration groups "
                          "of 4 lengths in s / ms / bare, Delay-shifted Onsets and Durations incl. two Delay groups in one "
                          "row, plain tag, empty) under every non-decreasing onset assignment over the grid, filtered to "
                          "valid histories by the reference machine, is given to EventManager: entries in time order, the "
                          "set of time points, the processes listed at their start point, the context (started strictly "
                          "earlier, not ended) and the remaining annotation must equal the reference at every time point; "
                          "HedTagManager shows an Event-context exactly where the context is non-empty; non-monotone "
                          "onsets are rejected with HedFileError.",
                     note="only the first entry of a merged time point is judged; a Delay tag left in a shifted process' "
                          "text is ignored; durations on a 0.5 s grid")

CHECKS["C17"] = dict(engine="E1+E2", cat="model_checking", design="4/C17",
                     technique="exhaustive enumeration of parameter sets x small tables against reference semantics; "
                               "explicit-state exploration of operation lists and dispatcher histories (differential: fresh "
                               "vs. used dispatcher)",
                     text="45 parameter sets generated from the JSON specifications of the eight operations (every flag "
                          "setting, optional parameters present/absent) x 246 tables of <= 3 rows (text, numeric, n/a, "
                          "duplicates) are run through Dispatcher on TSV files and compared with reference semantics; all "
                          "ordered pairs (thorough: triples) of sets are composed; every sequence of <= 3 tables through one "
                          "dispatcher must give each table the result a fresh dispatcher gives; input frame and parameter "
                          "dictionaries are compared before/after; every single-fault mutation of every specification must be "
                          "reported by the validator and, through run_remodel.main, leave the data files untouched.",
                     note="reference semantics from docstrings / PARAMS descriptions; arithmetic judged only on numeric "
                          "onset/duration cells; compositions after remap_columns(integer_sources) judged for purity only")

CHECKS["C18"] = dict(engine="E3+E2", cat="model_checking", design="4/C18",
                     technique="exhaustive crash-point and torn-write enumeration of the recorded I/O history of "
                               "create_backup through an interposed file-system seam; breadth-first exploration of "
                               "post-backup operation histories against a path->bytes reference model",
                     text="For 3 data trees x every file selection x {with, without another valid backup} the I/O history of "
                          "create_backup (makedirs, stepwise copies, record open/writes/close) is recorded, then re-run with a "
                          "crash before every step and every torn pattern {nothing, half, all} at the record file; a fresh "
                          "BackupManager must either refuse / not list the backup or list it with every recorded file "
                          "byte-identical; an earlier backup stays intact; an existing name is never overwritten. All "
                          "histories of 3 (thorough 4) operations from {modify, delete, delete dir, remodel, restore all, "
                          "restore task} via the real CLIs are compared file-by-file with the reference after every step; "
                          "backup copies never change; remodel twice == once.",
                     note="one interposed call is atomic; power-loss reordering of unsynced data out of scope; task-filtered "
                          "remodel excluded (the two CLIs key tasks on different file-name forms)")

CHECKS["C19"] = dict(engine="E3", cat="model_checking", design="4/C19",
                     technique="stateless exploration of all interleavings / crash points / lock time-outs up to a "
                               "deviation bound of the real cache functions run as threads-as-processes under a baton "
                               "scheduler with interposed file, lock, clock and URL seams",
                     text="H1 two populators || loader on an empty cache, H3 populator || populator, H6 network refresh (fake "
                          "server) || loader with the refresher crashed at every point, H2 populator crashed at every point "
                          "then loader / populator / loader, H4 two CacheLock holders with time-outs, H5 refresh interval x "
                          "clock answers x unreadable time-stamp files: every execution within the bound (quick 1-2, thorough "
                          "2-3 deviations) runs the real code at file-operation granularity; every load must succeed on a "
                          "complete bundled/served file, no torn file may stay under a final name, a finished population is "
                          "byte-identical, holders never overlap, a time-out yields CacheException, refreshes inside the "
                          "interval are skipped. A determinism gate replays the first schedule; the lock model is checked "
                          "against real portalocker in two processes by --selftest.",
                     note="one interposed call is atomic; readers see a snapshot; 2 (thorough 4) installed files; lock model "
                          "instead of real flock inside the explorer")

CHECKS["C16"] = dict(engine="E1", cat="model_checking", design="4/C16",
                     technique="exhaustive enumeration of directory trees of a layout grammar written to tmpfs; reference "
                               "BIDS inheritance as oracle; differential comparison of issue multisets",
                     text="Every tree (session level or not, run entity or not, 3 events files, sidecars in {root, sub-01, "
                          "sub-02, ses} directories with every entity subset that keeps <= 1 applicable file per directory, "
                          "decoys in derivatives/ and code/) is loaded with BidsDataset: the sidecar applied to each events "
                          "file must equal the reference top-down merge (deeper overrides per column key, sub-keys varied); "
                          "excluded directories take no part; dataset issues (errors only and with warnings) must equal the "
                          "multiset union of validating each sidecar with its own chain and each events file with its "
                          "reference-merged sidecar; hed_validator.main() exits non-zero iff that list is non-empty.",
                     note="fixed file/entity alphabet; expected issues computed with the library's Sidecar/TabularInput "
                          "validation on reference-merged sidecars")

CHECKS["C13"] = dict(engine="E1", cat="model_checking", design="4/C13",
                     technique="bounded exhaustive enumeration of annotations per schema member x pairings x prefix "
                               "assignments, relational (group vs. schema alone) comparison of code multisets",
                     text="For 4 (thorough 7) offline pairings x 4 prefix assignments, every tag of each member schema's XML "
                          "(short, lower-case, long; with value) plus every forest of <= 3 leaves over a pool with invalid "
                          "leaves is validated with all tags prefixed under the group and unprefixed under that schema alone: "
                          "equal multisets of (code, severity); unloaded / non-alphabetic / wrong-case prefixes must give "
                          "TAG_NAMESPACE_PREFIX_INVALID; every standard tag of a partnered library keeps its attributes and "
                          "classes and every library tag of the XML is present; same library twice and clashing names under "
                          "one prefix are refused, disjoint libraries are merged.",
                     note="annotation size bounded; definitions not used under prefixes")

CHECKS["C12"] = dict(engine="E1+E2", cat="model_checking", design="4/C12",
                     technique="the bounded exhaustive input sets of C01/C07/C08/C16 pushed through every validation entry "
                               "point x warnings on/off x context handler on/off, plus repeated decoration and all "
                               "permutations of small issue lists for sorting",
                     text="~8k strings (vocabulary, structure, templates, mutations) x placeholders x warnings x handler, "
                          "sidecars (C08 faults and valid ones), tables and 4-column spreadsheets (C07 families), 24 dataset "
                          "trees: every issue has code/message/severity; offsets lie inside the text and inside the named "
                          "tag, select exactly index_in_tag..index_in_tag_end of its original text and that text occurs in the "
                          "message; the location suffix occurs once, also after decorating 2 and 3 times; errors-only equals "
                          "the error subset of warnings-on; reference replacement gives JSON-serialisable issues with the "
                          "same codes; sort_issues equals a stable reference sort on (file, sidecar column, key, row) for "
                          "every permutation of every list of <= 4 issues over the context grid.",
                     note="'quoted in the message' is checked as substring occurrence; inputs restricted to schema 8.3.0")

CHECKS["C14"] = dict(engine="E1", cat="model_checking", design="4/C14",
                     technique="exhaustive (thorough) / structural-class (quick) enumeration of seeding positions for each "
                               "fault kind on the XML source tree of every bundled schema, one fault per instance",
                     text="All 9 bundled standard / partnered schemas must pass unchanged (no error-severity issue, errors-only "
                          "result empty). 16 fault kinds (duplicate node; undeclared and wrong-section attributes derived from "
                          "the schema's own attribute definitions; dangling unit class / value class / suggested / related tag; "
                          "class attributes on a non-placeholder; deprecatedFrom unknown / not older; bad conversion factor; "
                          "foreign default units; unknown allowedCharacter; foreign inLibrary; hedId out of range / malformed / "
                          "changed against a version-bumped successor) are seeded at every applicable node / unit / class / "
                          "modifier (quick: <= 5 per (kind, section, depth) class, ~2.1k instances) and must be reported with "
                          "the specification code naming the seeded entry; with warnings off exactly the error subset.",
                     note="quick tier samples positions per structural class (stated, not exhaustive); thorough is wall-clock "
                          "capped and reports completed ranges; attribute-value faults are warnings in this code base")

CHECKS["C05"] = dict(engine="E2+E1", cat="model_checking", design="4/C05",
                     technique="breadth-first exploration of edit histories applied to the XML source tree, each state "
                               "round-tripped through every format and mode on real files; independent xml.etree oracle",
                     text="Every compliant bundled schema x {xml, mediawiki, tsv} x {merged, unmerged when partnered} (legacy "
                          "stand-alone libraries: xml and mediawiki), every single edit of a ~35-entry menu (nodes under each "
                          "structural class of parent, 10 description texts, multi-valued and flag attributes, value-taking "
                          "children with 0-2 unit / value classes, removals, re-attribution, units in the first and the last "
                          "standard class, unit class, value class, modifier, rooted library node) on full-size bases, and all "
                          "edit sequences of length 2 (thorough 3) on a pruned cut of 8.3.0 and on testlib_3.0.0: each "
                          "reloaded schema must equal the original by HedSchema.__eq__ and by an own canonical dump (incl. "
                          "unit membership); the reloads must agree; an independent ElementTree reading of the saved XML must "
                          "equal that of the edited source (library entries only, inLibrary stripped, for unmerged saves); a "
                          "schema merged from several libraries refuses every save entry point with HedFileError.",
                     note="edits of a partnered library touch library entries only; descriptions without leading/trailing "
                          "blanks; known finding: literal <nowiki> markup in a description")

PENDING_REASON = "check not built yet in this revision (planned in DESIGN.md section 4); not claimed until it is"


# extensions made while running independent seeded changes (second wave): appended to the level text
EXTRA = {
    "C01": "Delimiter faults are also written with blanks between the delimiters and inside groups; delayed "
           "Onset/Offset/Inset groups (Delay as the only extra tag) must be accepted, another extra tag reported.",
    "C03": "E2: every history to depth 3 (thorough 5) of {read long, read short, validate under 8.2.0, validate under 8.3.0, "
           "set extension, replace placeholder, copy} on one live tag (7 subjects incl. tags that moved between the two "
           "versions) must leave the forms the XML model gives for (current schema, node, extension); copied-from objects "
           "unchanged.",
    "C04": "Reserved family: ordered pairs (thorough triples) of 27 entries around Duration / Delay / Onset / Offset / Inset / "
           "Event-context / Def under every one-group permutation, reversal and respelling.",
    "C05": "Descriptions include a quoted start and Unicode line-boundary characters; rooted library subtrees.",
    "C06": "Templates with the same reference twice; value cells with backslash escapes and '#'.",
    "C07": "Every issue (errors and warnings) is checked for its column label: cell-check codes name a column whose cell gives "
           "that code, row-level / temporal issues no column, order warnings neither row nor column.",
    "C08": "A top-level HED key is seeded with every JSON value type, first / last / alone.",
    "C10": "A row that fails validation (thorough: also a valid marker-free row) inserted at the end (thorough: anywhere) must "
           "leave the temporal issues of all time points unchanged.",
    "C12": "E2: every history to depth 3 of {expand, shrink, validate, copy, sort} on Def-carrying strings followed by a "
           "validation with a context-carrying handler; sort_issues also with reverse=True.",
    "C13": "Prefix boundary values (one letter, digit / underscore at every position, with / without colon) through six ways of "
           "giving a prefix; E2 histories to depth 3 (thorough 4) of {validate, set prefix tl / sc / none, group, version load} "
           "on one schema object, then prefixed annotations (incl. a unique-tag violation) judged as by a fresh copy.",
    "C14": "Duplicates (bare / described / verbatim) and out-of-range / changed hedIds also on unit classes, units, unit "
           "modifiers, value classes, attributes and properties.",
    "C15": "'{a: b}' for atoms is compared with a reference (a group holding a, optionally b, nothing else) wherever no group "
           "has two candidates for one atom; the batch interface with unannotated rows (None / empty) at every position.",
    "C16": "Directories with an excluded name below the root (with sidecar and events file) take no part.",
    "C17": "A remap key listed twice before other keys; dispatcher histories include a table with an extra column.",
    "C18": "Histories include repeated backup requests under the default name (explicit / omitted / empty) and a data root "
           "whose own name mentions a task.",
    "C19": "The lock model attaches the lock to the file opened at acquire time (conformance trace with real portalocker); "
           "H4c: three holders, never two inside; the write seam models exclusive-create and append.",
    "C20": "E2: every sequence to depth 2 (thorough 3) of six observers (unfold_context / HedTagManager with and without "
           "remove_types) on one manager: answers equal a fresh manager's, manager state unchanged.",
}
EXTRA3 = {
    "C01": "The reserved templates are re-run under 9 (thorough 25) PYTHONHASHSEED values in fresh interpreters (the verdict "
           "must not depend on set iteration order); bad unit texts come from the C11 unit grammar; two empty groups.",
    "C03": "The generated schema has a node with both a '#' child and named children; bulk cells that differ only in the "
           "letter case of a value.",
    "C04": "Value twins: two copies whose values differ in letter case only, under every spelling of the two names and every "
           "order (pure differential).",
    "C05": "Second generation: schemas reloaded from unmerged saves are saved and reloaded again in every format; TSV re-save "
           "into the same directory; the in-memory data-frame form.",
    "C06": "Every call of a history is compared with a fresh object's answer; assemble(skip_curly_braces=True) is in the "
           "alphabet; frames handed out earlier stay as they were; a cell edit after an assembly; the table as a DataFrame "
           "with empty / missing cells.",
    "C07": "F5 curly-brace splicing under every row order, F6 rows whose onset is n/a, F7 Delay / Duration values that are "
           "not numbers, F8 sheets without a header row.",
    "C08": "Brace contents of every character kind; E2 histories on one Sidecar object edited in place between validations.",
    "C09": "The histories also run under a namespace prefix; the table form of expand / shrink; Def-expand content with its "
           "'#' unfilled where placeholders are allowed.",
    "C10": "Sequences of files through one SpreadsheetValidator object.",
    "C11": "Plurals of symbols, a unit before the number, a word between number and unit (validation and conversion).",
    "C12": "sort_issues with numeric / text / absent column labels mixed; planted characters after a colon.",
    "C13": "Every ordered pair of bundled schemas under one prefix is refused whenever their XML files share a tag name; "
           "pairings across the 8.3.0 boundary with non-ASCII values (known finding).",
    "C14": "Foreign inLibrary names that are fragments of the library's own name; legitimate deprecatedFrom values must not "
           "be reported.",
    "C15": "References for '{a && b}' and '[a && b]' on atoms; the annotation respelled (long form, other case) gives the "
           "same answers.",
    "C16": "An events file in the dataset root; the command line with --check-for-warnings and the JSON formats.",
    "C17": "Run patterns of 4-5 rows for merge_consecutive; data-level faults at every list position; split_rows events "
           "that tie with other rows.",
    "C18": "A second manager object created before the backup existed; partial backups followed by a remodel run; capitals in "
           "directory names.",
    "C19": "fail_when_locked in the lock model (conformance trace); H7: the real url_to_file over a response cut after k bytes.",
    "C20": "Inset markers and Onset groups with content in the item menu.",
}
EXTRA4 = {
    "C01": "E2 prefix histories: verdicts on one schema object before / under / after a prefix change; a Def-expand with a "
           "value its definition does not take.",
    "C03": "Values with a colon followed by a slash; E2 histories on one live tag; setting the base tag to itself.",
    "C04": "Def-expand groups written contents-first and unknown Def tags next to sound ones in the reserved family.",
    "C05": "Multi-valued attributes compared value by value in the XML; a '#' node without takesValue in the edit alphabet.",
    "C06": "A column whose name is a number, referenced in braces.",
    "C07": "F9 column swaps, F10 in-place edit histories, F4b delayed positions under every letter case of Delay.",
    "C08": "Two '#' in one tag; the placeholder faults next to a definition; definition columns among the valid sidecars.",
    "C09": "Definitions whose sorted sibling order depends on the value filled in.",
    "C10": "Byte-identical rows in one time point; the same files with warnings requested; Delay in any letter case.",
    "C11": "The order in which schemas are used in one process (fresh interpreters, forward / reverse).",
    "C13": "Upper-case prefixes; values with a colon followed by a slash.",
    "C14": "The duplicate code is SCHEMA_DUPLICATE_NODE for copies inside one section; duplicated placeholders (known finding).",
    "C16": "A lone sidecar whose only HED keys are misplaced below Levels.",
    "C17": "Rename maps that swap or chain names; two-column keys whose texts concatenate alike; remap column lists no table "
           "can satisfy must not validate.",
    "C18": "A complete backup that loses a recorded copy before a new manager is built.",
    "C19": "Every history of up to four refresh attempts over the gaps {1 s, T-1, T, 2T} against a one-number model.",
    "C20": "Distinct processes with identical text; unordered onsets with n/a between them; histories under a namespace.",
}
EXTRA5 = {
    "C01": "E2 histories on one HedValidator object (the same value under tags of different value classes); unprefixed tags "
           "under a prefix.",
    "C02": "Texts no bounded alphabet spells: missing-value words as the whole annotation, nesting to depth 200; schema names "
           "with a character whose case folding is longer than itself.",
    "C03": "A valued tag must resolve to the node's value-taking child; a node with its own extensionAllowed and a '#' child.",
    "C05": "A named child listed after a placeholder; descriptions with an HTML entity and with backslashes.",
    "C06": "Neighbouring references to one column; entries that each name one of two referenced value columns; E2 histories "
           "of sidecar replacement on one table; files whose data rows end in a tab.",
    "C07": "F8x Excel sheets with empty cells; F6b onset cells that are neither numbers nor n/a, every file order of rows "
           "without a time; trailing tabs.",
    "C08": "Empty value entries; referenced columns with capitals; braces around text that is no column name (known finding).",
    "C09": "Duplicate definition names with letters whose lower-case and case-folded forms differ.",
    "C10": "Unsorted files holding a failing marker row (every file order, a row without a time at every position); delayed "
           "groups that cross a time point, in s and Ms.",
    "C11": "Literals ending in a bare decimal point.",
    "C12": "Blank-only spreadsheet cells before cells whose issues carry offsets; length-changing case folding.",
    "C13": "Single schemas held under a prefix; several libraries under one prefix from a partly filled cache folder.",
    "C14": "Tag-only attributes on units / classes / modifiers; defaultUnits naming a unit of another class.",
    "C15": "Unparenthesised chains of three and four operands; annotations changed by replacing Def tags with their contents.",
    "C16": "Events files below a datatype directory with sidecars in the session directory.",
    "C17": "The documented error of remap_columns is required; rename maps that give two columns one name must not validate.",
    "C18": "E2 histories with two backup names through one manager object, on paths with leading dots.",
    "C19": "H8: a slow lock holder beside a loader whose lock attempts time out (deviation bound 3, thorough 4).",
    "C20": "Every entry of a time point is judged; two values of one value-taking definition.",
}
EXTRA6 = {
    "C01": "Value-taking tags without any class; numbers with exponents in either letter case.",
    "C02": "The original form through get_as_original().",
    "C03": "Empty values and values with slashes at their ends.",
    "C04": "Copies below redundant parentheses.",
    "C05": "Merges of two versions of one library must refuse to save; file saves under a non-UTF-8 locale (child interpreters).",
    "C06": "Sidecars given as lists of files; frames with categorical columns.",
    "C08": "Definition columns with uneven entries; a lone reference in a value column without '#'.",
    "C09": "Bulk expansion of cells whose Def tags are written in another letter case.",
    "C10": "The same delayed marker twice in one row.",
    "C12": "Sort labels that differ only in letter case stay grouped.",
    "C15": "'||' as an operand of '&&' / '[ ]' with its alternatives swapped.",
    "C16": "A root sidecar whose path is longer than that of a deeper one.",
    "C17": "Destination values with quote characters.",
    "C18": "Edits that keep length and modification time; a task-filtered remodel run.",
    "C19": "H9 refresh histories in one process; H4m holders of both kinds; a schedule prefix that does not replay is a "
           "violation (state kept in the process).",
    "C20": "A process keeps its form between start list and later contexts when types are filtered.",
}
EXTRA7 = {
    "C01": "A placeholder in another tag excuses nothing; testlib_1.0.2 in the quick tier.",
    "C03": "The text of a live tag replaced by another spelling; values that repeat a term of the tag's path.",
    "C04": "Several misplaced reserved tags in one group; one text under two value classes.",
    "C05": "Schemas without prologue / epilogue; a TSV directory given with a trailing separator.",
    "C06": "A categorical level left unannotated.",
    "C07": "E2 sequences of files through one SpreadsheetValidator; a tag column asked for under a name the sheet lacks.",
    "C08": "A closing brace before the first opening one; falsy category values of every JSON type.",
    "C09": "Duplicates across merged dictionaries; altered Def-expand content written before the tag.",
    "C10": "Onsets in seconds since 1970; onsets whose text order is not their numeric order.",
    "C12": "Offsets under a namespace prefix.",
    "C13": "The same library twice inside one comma-separated entry.",
    "C14": "The hedId zero.",
    "C15": "One atom k times counts distinct tags; handlers stay aligned with their queries.",
    "C17": "Merged runs whose latest end is not the last row's.",
    "C18": "A task-filtered remodel run on files named the BIDS way (task-go), with edits after the backup.",
    "C19": "H6 monitor: downloads happen while the refresher holds the lock.",
}
EXTRA8 = {
    "C01": "Duration / Delay groups with two inner groups; one validator object through many strings.",
    "C02": "Letter-case folds of base tags in every context; nesting to depth 200.",
    "C03": "A partnered library built on the cached standard schema: identification through both objects in turn; a prefix with a capital letter.",
    "C04": "Doubled wrapping; descriptions and labels with blanks as raw leaves.",
    "C05": "Files with non-ASCII text written and read under LC_ALL=C.",
    "C06": "A sidecar entry replaced in place between assemblies; a cell that resembles a key.",
    "C07": "Delayed-group rows in every file order; non-numeric onset texts in every row order.",
    "C08": "Hyphenated and capitalised referenced columns; one definition list shared by consecutive validations.",
    "C09": "The same placeholder tag twice in one definition; non-ASCII duplicate names.",
    "C10": "Onsets chained 0.8 ns apart; definition names whose lower() and casefold() differ.",
    "C11": "Literals only float() accepts; conversion of bare numbers.",
    "C12": "Unordered tables with warnings off; mixed row / column context keys in the sort.",
    "C13": "Definitions expanded and shrunk under a prefixed schema; generated libraries sharing a unit class.",
    "C14": "Prologue / epilogue characters with warnings off.",
    "C15": "Group objects taken out of an annotation searched on their own; dotted terms.",
    "C16": "A directory differing only in letter case from an excluded name.",
    "C17": "Adjacent runs differing in a match column.",
    "C18": "Two directory levels deleted before a restore; backups holding hidden directories.",
    "C19": "H10 / H10c readers of the bundled library data (interrupted at every point, interleaved); H8l a bundled library schema under a slow lock holder.",
    "C20": "Row labels 1..n; listed processes keep the schema prefix.",
}
EXTRA9 = {
    "C01": "A faulty duration group beside delayed temporal groups, in both orders.",
    "C06": "A frame whose row labels repeat.",
    "C07": "F11: the same rows at onsets near zero and late in a recording (up to 1.7e9 s).",
    "C13": "Groups built from schema objects (the same object twice, equal objects).",
    "C15": "Negation of a term absent from the annotation inside [ ].",
    "C19": "H11: merged requests of two bundled libraries from every partly filled cache directory.",
}
for _k, _v in EXTRA3.items():
    EXTRA[_k] = EXTRA.get(_k, "") + ("  " if _k in EXTRA else "") + _v
for _k, _v in EXTRA4.items():
    EXTRA[_k] = EXTRA.get(_k, "") + ("  " if _k in EXTRA else "") + _v
for _k, _v in EXTRA5.items():
    EXTRA[_k] = EXTRA.get(_k, "") + ("  " if _k in EXTRA else "") + _v
for _k, _v in EXTRA6.items():
    EXTRA[_k] = EXTRA.get(_k, "") + ("  " if _k in EXTRA else "") + _v
for _k, _v in EXTRA7.items():
    EXTRA[_k] = EXTRA.get(_k, "") + ("  " if _k in EXTRA else "") + _v
for _k, _v in EXTRA8.items():
    EXTRA[_k] = EXTRA.get(_k, "") + ("  " if _k in EXTRA else "") + _v
for _k, _v in EXTRA9.items():
    EXTRA[_k] = EXTRA.get(_k, "") + ("  " if _k in EXTRA else "") + _v
for _k, _v in EXTRA.items():
    CHECKS[_k]["text"] += "  Extended: " + _v
CHECKS["C03"]["engine"] = "E1+E2"
CHECKS["C03"]["technique"] += "; explicit-state exploration of operation histories on one live tag object"
CHECKS["C13"]["engine"] = "E1+E2"
CHECKS["C13"]["technique"] += "; explicit-state exploration of prefix-change histories on one schema object"
CHECKS["C20"]["technique"] += "; observer histories on one manager compared with fresh managers"
CHECKS["C01"]["technique"] += "; enumeration of interpreter hash seeds for the order-dependent family"
CHECKS["C08"]["engine"] = "E1+E2"
CHECKS["C08"]["technique"] += "; explicit-state exploration of validate / edit histories on one Sidecar object"
CHECKS["C10"]["technique"] += "; sequences of files through one validator object"
CHECKS["C01"]["engine"] = "E1+E2"
CHECKS["C01"]["technique"] += "; explicit-state exploration of annotation sequences on one validator object and of prefix changes on one schema object"
CHECKS["C06"]["technique"] += "; sidecar-replacement histories on one table object"
CHECKS["C07"]["engine"] = "E1+E2"
CHECKS["C07"]["technique"] += "; explicit-state exploration of edit histories on one table and of file sequences through one validator"
CHECKS["C18"]["technique"] += "; operation histories with two backup names on one manager object"


def main():
    props = [json.loads(l) for l in open(os.path.join(VERIF, "properties.jsonl"))]
    checks = []
    na = []
    for p in props:
        pid = p["id"]
        c = CHECKS.get(pid)
        if not c:
            na.append({"property_id": pid, "reason": PENDING_REASON})
            continue
        entry = {
            "property_id": pid,
            "quick_cmd": f"./check {pid} --tier quick",
            "thorough_cmd": f"./check {pid} --tier thorough",
            "evidence_file": f"/verif/evidence/{pid}.json",
            "replay_cmd_template": f"./check {pid} --replay {{path}}",
            "engine": c["engine"],
            "level_claimed": {"category": c["cat"], "text": c["text"], "design_ref": c["design"]},
            "level_note": c["note"],
            "technique": c["technique"],
        }
        checks.append(entry)
    man = {
        "version": 1,
        "setup_cmd": "/venv/bin/python -m compileall -q mc props tools >/dev/null; ./check --selftest",
        "hooks": {
            "guard": "HED_PYTHON_VERIF",
            "enable": "no source hooks: all instrumentation is interposed at module seams at run time by the harness; "
                      "hed is an editable install, so checks always import /repo's working tree",
            "baseline_off_cmd": "cd /repo && env -u HED_PYTHON_VERIF /venv/bin/python -m pytest -ra -q -p no:cacheprovider "
                                "--timeout=900 --continue-on-collection-errors",
            "source_commits": [],
            "add_only": True,
        },
        "engines": [
            {"name": "E1", "path": "mc/hedgen.py", "kind_free_text": E1,
             "serves_properties": sorted(k for k, v in CHECKS.items() if "E1" in v["engine"])},
            {"name": "E2", "path": "mc/core.py", "kind_free_text": E2,
             "serves_properties": sorted(k for k, v in CHECKS.items() if "E2" in v["engine"])},
            {"name": "E3", "path": "mc/sched.py", "kind_free_text": E3,
             "serves_properties": sorted(k for k, v in CHECKS.items() if "E3" in v["engine"])},
        ],
        "checks": checks,
        "notes": "All checks run /venv/bin/python on /repo's working tree (VERIF_REPO overrides for scratch worktrees). "
                 "Genuine defects: see known_findings.json and DESIGN.md section 6.",
        "not_applicable": na,
    }
    try:
        import jsonschema
        jsonschema.validate(man, json.load(open("/root/.vp/MANIFEST.schema.json")))
    except FileNotFoundError:
        pass
    with open(os.path.join(VERIF, "MANIFEST.json"), "w") as f:
        json.dump(man, f, indent=1)
    print(f"MANIFEST.json: {len(checks)} checks, {len(na)} not claimed")


if __name__ == "__main__":
    main()
