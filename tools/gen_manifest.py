#!/venv/bin/python
"""Regenerate MANIFEST.json from the table below (kept valid against /root/.vp/MANIFEST.schema.json)."""
import json
import os

VERIF = os.path.dirname(os.path.dirname(os.path.abspath(__file__)))

E1 = "bounded exhaustive enumeration (small-scope) executed on the implementation"
E2 = "explicit-state breadth-first search over operation histories on the implementation"
E3 = "stateless schedule / crash-point exploration with a deviation bound on the implementation"

CHECKS = {
    "C02": dict(engine="E1", cat="model_checking", design="4/C02",
                technique="exhaustive enumeration of all token strings up to a length bound, reference-parser oracle",
                text="Every string of <= N tokens over the delimiter alphabet (plus literals discovered in the tokenizer "
                     "source, plus an extended alphabet at smaller N) is parsed by the real HedString and compared with "
                     "an independent reference parser: totality, tag/group spans, nesting, print/re-parse identity in "
                     "three forms, empty tree + PARENTHESES_MISMATCH when unbalanced. Complete below the bound.",
                note="strings longer than the bound and code points outside the extended alphabet rely on the "
                     "alphabet-abstraction argument; schema 8.3.0 only (tokenisation is schema independent)"),
}

PENDING_REASON = "check not built yet in this revision (planned in DESIGN.md section 4); not claimed until it is"


def main():
    props = [json.loads(l) for l in open(os.path.join(VERIF, "properties.jsonl"))]
    checks = []
    na = []
    for p in props:
        pid = p["id"]
        c = CHECKS.get(pid)
        if not c:
            na.append({"property_id": pid, "reason": PENDING_REASON})
            continue
        entry = {
            "property_id": pid,
            "quick_cmd": f"./check {pid} --tier quick",
            "thorough_cmd": f"./check {pid} --tier thorough",
            "evidence_file": f"/verif/evidence/{pid}.json",
            "replay_cmd_template": f"./check {pid} --replay {{path}}",
            "engine": c["engine"],
            "level_claimed": {"category": c["cat"], "text": c["text"], "design_ref": c["design"]},
            "level_note": c["note"],
            "technique": c["technique"],
        }
        checks.append(entry)
    man = {
        "version": 1,
        "setup_cmd": "/venv/bin/python -m compileall -q mc props tools >/dev/null; ./check --selftest",
        "hooks": {
            "guard": "HED_PYTHON_VERIF",
            "enable": "no source hooks: all instrumentation is interposed at module seams at run time by the harness; "
                      "hed is an editable install, so checks always import /repo's working tree",
            "baseline_off_cmd": "cd /repo && env -u HED_PYTHON_VERIF /venv/bin/python -m pytest -ra -q -p no:cacheprovider "
                                "--timeout=900 --continue-on-collection-errors",
            "source_commits": [],
            "add_only": True,
        },
        "engines": [
            {"name": "E1", "path": "mc/enumerate.py", "kind_free_text": E1,
             "serves_properties": sorted(k for k, v in CHECKS.items() if v["engine"] == "E1")},
            {"name": "E2", "path": "mc/explore.py", "kind_free_text": E2,
             "serves_properties": sorted(k for k, v in CHECKS.items() if v["engine"] == "E2")},
            {"name": "E3", "path": "mc/sched.py", "kind_free_text": E3,
             "serves_properties": sorted(k for k, v in CHECKS.items() if v["engine"] == "E3")},
        ],
        "checks": checks,
        "notes": "All checks run /venv/bin/python on /repo's working tree (VERIF_REPO overrides for scratch worktrees). "
                 "Genuine defects: see known_findings.json and DESIGN.md section 6.",
        "not_applicable": na,
    }
    try:
        import jsonschema
        jsonschema.validate(man, json.load(open("/root/.vp/MANIFEST.schema.json")))
    except FileNotFoundError:
        pass
    with open(os.path.join(VERIF, "MANIFEST.json"), "w") as f:
        json.dump(man, f, indent=1)
    print(f"MANIFEST.json: {len(checks)} checks, {len(na)} not claimed")


if __name__ == "__main__":
    main()
