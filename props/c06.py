"""C06 - event-file rows assemble into exactly the annotation the sidecar prescribes.

E1: every sidecar over a menu of column kinds (categorical, value, ignored, HED column, columns with 0-2 curly references
    at every structural position incl. {HED}) x one table holding *every* combination of cells as its rows (so 'one
    annotation per row in row order' is exercised on every combination) x column orders x row orders.
E2: histories of assemble / series_a / dataframe_a / validate on the same object: same answer every time, table and
    sidecar unchanged.
Oracle: reference assembly on plain dicts; results compared as parsed top-level multisets; own delimiter scanner.
"""
import copy
import io
import itertools
import json
import os

from mc import core
from props.c02 import ref_parse

ID = "C06"
LEVEL = "model_checking"
RULE = ("sidecars = every choice of 2-4 columns from the kind menu (plain categorical, value, ignored, non-object entry, "
        "categorical / value templates with a reference at each of 11 structural positions (one with the same reference twice) and two-reference templates, "
        "referring to a categorical column, a value column or HED) ; tables = the full cross product of the per-column cell "
        "alphabets {each key, n/a, unknown key, value, value with backslash escapes, value with '#', empty} as rows, in 2-3 column orders and 2 row orders; histories of "
        "length <= 3 over {assemble, assemble(skip_curly_braces), series_a, dataframe_a, validate}, every answer compared with a fresh object's.  distinct case = (sidecar, row); non-trivial = row with "
        "a reference whose target is n/a / unselected, or with >= 2 contributing columns; state = (sidecar signature, history); "
        "transition = one assembly call on the implementation")
ASSUMPTIONS = [
    "tables enter through the TSV text path (empty cells become n/a there), as real events files do",
    "'union' is compared as a multiset of top-level items, each item canonical up to nothing (order inside items kept)",
    "a change of column dtype of the input frame is counted (observed_dtype_drift) and judged through its effect: an edit "
    "of a cell after an assembly must work as on a fresh table; cell text, labels and row order are judged directly",
]

REF_POSITIONS = ["{R}", "Circle, {R}", "({R}), (Circle, {R})", "(Circle, {R}), ({R})", "Circle, {R}, {R}", "{R}, Circle", "(Circle, {R})", "({R}, Circle)", "(({R}), Circle)", "Circle, ({R})",
                 "(Circle, ({R}, Triangle))", "Circle, {R}, Triangle", "((({R})))"]
TWO_REFS = ["{R}, {S}", "({R}, {S})", "({R}), ({S}), Circle", "(Circle, ({R}, ({S})))", "(({R}, {S}), {S})"]


# ---- reference model ------------------------------------------------------------------------------

def to_tree(text):
    bal, items = ref_parse(text)
    if not bal:
        return None

    def conv(its):
        return [text[it[1]:it[2]] if it[0] == "t" else conv(it[3]) for it in its]
    return conv(items)


def canon_top(tree):
    """Multiset of top-level items (order inside an item is kept: splicing must not reorder)."""
    def item(x):
        return x if isinstance(x, str) else tuple(item(y) for y in x)
    return tuple(sorted((repr(item(x)) for x in tree)))


def well_formed(text):
    """Own delimiter scanner: balanced, no empty slot, no empty group, comma between items."""
    if text in ("", "n/a"):
        return True
    depth = 0
    prev = ","      # virtual: start expects an item
    for ch in text:
        if ch == " ":
            continue
        if ch == ",":
            if prev in ",(":
                return False
            prev = ","
        elif ch == "(":
            if prev not in ",(":
                return False
            depth += 1
            prev = "("
        elif ch == ")":
            if prev in ",(":
                return False
            depth -= 1
            if depth < 0:
                return False
            prev = ")"
        else:
            if prev == ")":
                return False
            prev = "t"
    return depth == 0 and prev not in ",("


def column_text(entry, cell):
    """The contribution of one column for one cell, or None when the column contributes nothing."""
    kind = entry["kind"]
    if cell in ("n/a", ""):
        return None
    if kind == "hed":
        return cell
    if kind == "categorical":
        t = entry["map"].get(cell)
        return t if t else None
    if kind == "value":
        return entry["template"].replace("#", cell)
    return None


def splice(template_tree, values):
    """Replace '{name}' leaves by the parsed value (spliced in place), dropping leaves whose value is None and the groups
    that become empty."""
    out = []
    for x in template_tree:
        if isinstance(x, str):
            if x.startswith("{") and x.endswith("}"):
                v = values.get(x[1:-1], "__unknown__")
                if v == "__unknown__":
                    out.append(x)
                elif v is not None:
                    out.extend(to_tree(v))
            else:
                out.append(x)
        else:
            inner = splice(x, values)
            if inner:
                out.append(inner)
    return out


def reference_row(spec, row):
    """spec: column name -> entry; row: column name -> cell.  Returns the expected top-level multiset."""
    texts = {}
    for name, entry in spec.items():
        if name in row:
            texts[name] = column_text(entry, row[name])
    referenced = set()
    for name, entry in spec.items():
        for t in ([entry.get("template")] if entry["kind"] == "value" else list(entry.get("map", {}).values())):
            if t:
                for other in spec:
                    if "{" + other + "}" in t and other in row:
                        referenced.add(other)
    items = []
    for name in spec:
        if name in referenced or name not in row:
            continue
        t = texts.get(name)
        if t is None:
            continue
        tree = to_tree(t)
        vals = {other: texts.get(other) for other in spec if other in row}
        items.extend(splice(tree, vals))
    return canon_top(items)


# ---- sidecar / table generation -----------------------------------------------------------------------

def kinds_menu(thorough):
    """(label, builder(target names) -> (json entry or None, spec entry, cell alphabet))"""
    menu = []
    menu.append(("cat", lambda R, S: ({"HED": {"a": "Red", "b": "(Blue, Square)"}},
                                      {"kind": "categorical", "map": {"a": "Red", "b": "(Blue, Square)"}},
                                      ["a", "b", "n/a", "zz", "b "])))       # 'b ' is not the key 'b'
    # a categorical column one of whose levels is left unannotated (an empty string)
    menu.append(("catempty", lambda R, S: ({"HED": {"a": "Red", "rest": "", "b": "(Blue, {val})" if False else "(Blue, Square)"}},
                                           {"kind": "categorical", "map": {"a": "Red", "rest": "", "b": "(Blue, Square)"}},
                                           ["a", "rest", "b", "n/a"])))
    menu.append(("val", lambda R, S: ({"HED": "Label/#"}, {"kind": "value", "template": "Label/#"},
                                      ["v1", "n/a", "fa\\fam\\d1\\1", "x#y"])))
    menu.append(("val2", lambda R, S: ({"HED": "ID/#"}, {"kind": "value", "template": "ID/#"}, ["k7", "n/a"])))
    menu.append(("ign", lambda R, S: ({"Description": "ignored"}, {"kind": "ignore"}, ["x", "n/a"])))
    menu.append(("scalar", lambda R, S: ("rest", {"kind": "ignore"}, ["x"])))
    positions = REF_POSITIONS if thorough else REF_POSITIONS[:9]
    for i, pos in enumerate(positions):
        menu.append((f"catref{i}", lambda R, S, pos=pos: (
            {"HED": {"a": pos.replace("R", R), "b": "Green"}},
            {"kind": "categorical", "map": {"a": pos.replace("R", R), "b": "Green"}}, ["a", "b", "n/a"])))
    for i, pos in enumerate(positions[:4] if not thorough else positions):
        t = pos.replace("{R}", "{R}, Description/#") if i % 2 else "Description/#, " + pos
        menu.append((f"valref{i}", lambda R, S, t=t: (
            {"HED": t.replace("R", R)}, {"kind": "value", "template": t.replace("R", R)}, ["w1", "n/a"])))
    for i, pos in enumerate(TWO_REFS if thorough else TWO_REFS[:2]):
        menu.append((f"cat2ref{i}", lambda R, S, pos=pos: (
            {"HED": {"a": pos.replace("R", R).replace("S", S), "b": "Green"}},
            {"kind": "categorical", "map": {"a": pos.replace("R", R).replace("S", S), "b": "Green"}}, ["a", "b"])))
    # two referenced columns, each entry mentions only one of them
    menu.append(("cat2ref-split", lambda R, S: (
        {"HED": {"a": "Circle, ({R})".replace("R", R), "b": "Green, ({S}), Triangle".replace("S", S)}},
        {"kind": "categorical", "map": {"a": "Circle, ({R})".replace("R", R), "b": "Green, ({S}), Triangle".replace("S", S)}},
        ["a", "b"])))
    return menu


def build_cases(thorough):
    """Yield (label, sidecar json dict, spec, columns -> alphabet)."""
    menu = dict(kinds_menu(thorough))
    targets = [("cat", "val"), ("val", "cat"), ("HED", "cat"), ("cat", "HED"), ("val", "HED")]
    refkinds = [k for k in menu if "ref" in k]
    # column names cover every character class a reference may hold, incl. a name made of digits only
    for alias in ({"cat": "ca-t1", "val": "Va_l2", "val2": "w-3", "HED": "HED"}, {"cat": "12", "val": "v_", "val2": "7w", "HED": "HED"}):
      for rk in refkinds:
        if alias["cat"] == "12" and not thorough and rk not in ("catref0", "catref2", "catref5", "valref0", "cat2ref0", "cat2ref-split"):
            continue
        # two referenced columns of one kind (both value columns) for the two-reference entries
        for R, S in targets + ([("val", "val2"), ("val2", "val")] if "2ref" in rk else []):
            if "2ref" not in rk and (R, S) in (("cat", "HED"), ("val", "HED")):
                continue
            names = []
            for name in sorted({R, S} - {"HED"}):
                names.append((alias[name], menu[name](R, S)))
            names.append(("zref", menu[rk](alias[R], alias[S])))
            if thorough:
                names.append(("ign", menu["ign"](R, S)))
            sidecar, spec, alpha = {}, {}, {}
            for name, (js, sp, al) in names:
                sidecar[name] = js
                spec[name] = sp
                alpha[name] = al
            with_hed = ("HED" in (R, S)) or thorough
            if with_hed:
                spec["HED"] = {"kind": "hed"}
                alpha["HED"] = ["Yellow", "n/a", "(Yellow, Purple)"]
            yield f"{rk}:{R}:{S}" + (":digit-names" if alias["cat"] == "12" else ""), sidecar, spec, alpha
    # reference-free sidecars: every subset of the plain kinds
    plain = ["cat", "val", "ign", "scalar", "catempty"]
    for r in range(1, len(plain) + 1):
        for combo in itertools.combinations(plain, r):
            sidecar, spec, alpha = {}, {}, {}
            for name in combo:
                js, sp, al = menu[name]("cat", "val")
                sidecar[name] = js
                spec[name] = sp
                alpha[name] = al
            for with_hed in (False, True):
                sp2, al2 = dict(spec), dict(alpha)
                if with_hed:
                    sp2["HED"] = {"kind": "hed"}
                    al2["HED"] = ["Yellow", "n/a", "(Yellow, Purple)"]
                yield "plain:" + "+".join(combo) + (":HED" if with_hed else ""), sidecar, sp2, al2


def make_table(alpha, col_order, reverse_rows):
    cols = [c for c in col_order if c in alpha]
    rows = [dict(zip(cols, combo)) for combo in itertools.product(*[alpha[c] for c in cols])]
    if reverse_rows:
        rows = rows[::-1]
    lines = ["\t".join(["onset_like"] + cols)]
    for i, r in enumerate(rows):
        lines.append("\t".join([str(i)] + [r[c] for c in cols]))
    return rows, "\n".join(lines) + "\n"


def frame_snapshot(df):
    return (list(df.columns), [tuple(str(v) for v in row) for row in df.itertuples(index=False)], list(df.index))


def check_case(env, rec, label, sidecar, spec, alpha, thorough):
    from hed.models.tabular_input import TabularInput
    from hed.models.sidecar import Sidecar
    names = list(alpha)
    orders = [names, names[::-1]] + ([sorted(names)] if thorough else [])
    seen = set()
    for co in orders:
        if tuple(co) in seen:
            continue
        seen.add(tuple(co))
        for rev in (False, True):
            rows, tsv = make_table(alpha, co, rev)
            js = json.dumps(sidecar)
            try:
                sc = Sidecar(io.StringIO(js))
                ti = TabularInput(io.StringIO(tsv), sidecar=sc)
                side_before = copy.deepcopy(sc.loaded_dict)
                frame_before = frame_snapshot(ti.dataframe)
                dtypes_before = [str(t) for t in ti.dataframe.dtypes]
                ser = list(ti.series_a)
            except Exception as e:
                rec.violation(f"C06:raises:{type(e).__name__}:{label.split(':')[0]}", sidecar=js, table=tsv[:300],
                              error=repr(e)[:300])
                rec.outcome("raises")
                return
            rec.n("transitions")
            if len(ser) != len(rows):
                rec.violation("C06:row-count-differs", sidecar=js, expected=len(rows), got=len(ser))
                return
            for i, (row, got) in enumerate(zip(rows, ser)):
                rec.n("evaluations")
                want = reference_row(spec, row)
                nontrivial = sum(1 for c in row if column_text(spec[c], row[c])) >= 2 or "ref" in label
                if nontrivial:
                    rec.n("distinct_nontrivial")
                wf = well_formed(got)
                tree = to_tree(got) if wf else None
                if not wf:
                    rec.violation(f"C06:ill-formed-result:{cls(label, spec, row)}", sidecar=js, row=row, got=got)
                    rec.outcome("ill-formed")
                    continue
                if canon_top(tree) != want:
                    rec.violation(f"C06:assembly-differs:{cls(label, spec, row)}", sidecar=js, row=row, got=got,
                                  expected=list(want))
                    rec.outcome("differs")
                    continue
                rec.outcome("ok:" + ("empty" if not got else "nonempty"))
            # histories: same answer every time, nothing changed
            def observe(obj, op):
                if op == "assemble":
                    return frame_snapshot(obj.assemble())
                if op == "assemble_skip":
                    return frame_snapshot(obj.assemble(skip_curly_braces=True))
                if op == "series_a":
                    return list(obj.series_a)
                if op == "dataframe_a":
                    return frame_snapshot(obj.dataframe_a)
                return sorted(i["code"] for i in obj.validate(env.schema))
            hist_ops = ("assemble", "assemble_skip", "series_a", "dataframe_a", "validate")
            fresh_answers = None
            for hist in itertools.product(hist_ops, repeat=2 if not thorough else 3):
                if rev or co is not orders[0]:
                    break
                try:
                    if fresh_answers is None:
                        fresh_answers = {op: observe(TabularInput(io.StringIO(tsv), sidecar=Sidecar(io.StringIO(js))), op)
                                         for op in hist_ops}
                    obj = TabularInput(io.StringIO(tsv), sidecar=Sidecar(io.StringIO(js)))
                    handed_out = []
                    for step, op in enumerate(hist):
                        got = observe(obj, op)
                        if got != fresh_answers[op]:
                            rec.violation(f"C06:answer-depends-on-earlier-calls:{op}", sidecar=js, history=hist, step=step,
                                          fresh=str(fresh_answers[op])[:300], got=str(got)[:300])
                            raise StopIteration
                        if op in ("assemble", "assemble_skip", "dataframe_a"):
                            handed_out.append((op, getattr(obj, "dataframe_a") if op == "dataframe_a" else
                                               (obj.assemble(skip_curly_braces=(op == "assemble_skip")))))
                    again = list(obj.series_a)
                    # frames handed out earlier are the caller's: later calls do not rewrite them
                    for op, frame in handed_out:
                        if frame_snapshot(frame) != fresh_answers[op]:
                            rec.violation(f"C06:handed-out-frame-rewritten-by-later-call:{op}", sidecar=js, history=hist)
                            raise StopIteration
                except StopIteration:
                    break
                except Exception as e:
                    rec.violation(f"C06:history-raises:{type(e).__name__}", sidecar=js, history=hist, error=repr(e)[:200])
                    break
                rec.n("transitions", len(hist) + 1)
                rec.state((label, hist))
                if again != ser:
                    rec.violation("C06:repeated-assembly-differs", sidecar=js, history=hist,
                                  first=[a for a, b in zip(ser, again) if a != b][:2],
                                  later=[b for a, b in zip(ser, again) if a != b][:2])
                    break
            # a cell edited after an assembly: the next assembly is that of the edited table
            if not rev and co is orders[0]:
                edit_after_assembly(env, rec, ti, alpha, tsv, js)
                # the same table handed over as a DataFrame, empty cells written n/a, '' or missing (None): same annotations
                import pandas as pd
                cols_ = [c for c in co if c in alpha]
                for empty, how in (("n/a", "n/a"), ("", "empty-string"), (None, "missing")):
                    df_in = pd.DataFrame({"onset_like": [str(i) for i in range(len(rows))],
                                          **{c: [(empty if r[c] == "n/a" else r[c]) for r in rows] for c in cols_}})
                    if how != "n/a" and not any(r[c] == "n/a" for r in rows for c in cols_):
                        continue
                    try:
                        got_df = list(TabularInput(df_in, sidecar=Sidecar(io.StringIO(js))).series_a)
                        if how == "missing":
                            # the same frame with categorical columns (missing cells stay missing values of the category)
                            df_cat = df_in.copy()
                            for c in cols_:
                                df_cat[c] = df_cat[c].astype("category")
                            got_cat = list(TabularInput(df_cat, sidecar=Sidecar(io.StringIO(js))).series_a)
                            if got_cat != got_df:
                                rec.violation("C06:dataframe-input-assembles-differently:categorical-columns", sidecar=js,
                                              from_object_columns=got_df[:3], from_categorical_columns=got_cat[:3])
                            # the same frame with row labels that repeat (two runs glued together without renumbering):
                            # one annotation per row, in row order
                            df_rep = df_in.copy()
                            df_rep.index = [i % 2 for i in range(len(df_rep))]
                            got_rep = list(TabularInput(df_rep, sidecar=Sidecar(io.StringIO(js))).series_a)
                            if got_rep != got_df:
                                rec.violation("C06:dataframe-input-assembles-differently:repeated-row-labels", sidecar=js,
                                              rows=len(df_in), default_labels=got_df[:3], repeated_labels=got_rep[:3])
                    except Exception as e:
                        rec.violation(f"C06:dataframe-input-raises:{type(e).__name__}:{how}", sidecar=js, error=repr(e)[:200])
                        continue
                    rec.n("transitions")
                    bad = [(i, a, b) for i, (a, b) in enumerate(zip(ser, got_df)) if a != b]
                    if bad or len(got_df) != len(ser):
                        rec.violation(f"C06:dataframe-input-assembles-differently:{how}", sidecar=js,
                                      row=rows[bad[0][0]] if bad else None, from_file=bad[0][1] if bad else None,
                                      from_frame=bad[0][2] if bad else None)
                # the same file with a trailing tab after every data row (not after the header): same rows, same annotations
                head_, _, body_ = tsv.partition("\n")
                ragged = head_ + "\n" + "".join(line + "\t\n" for line in body_.splitlines())
                try:
                    got_r = list(TabularInput(io.StringIO(ragged), sidecar=Sidecar(io.StringIO(js))).series_a)
                    rec.n("transitions")
                    if got_r != list(ser):
                        rec.violation("C06:trailing-tab-file-assembles-differently", sidecar=js, table=ragged[:200],
                                      expected=list(ser)[:3], got=got_r[:3])
                except Exception as e:
                    rec.violation(f"C06:trailing-tab-file-raises:{type(e).__name__}", sidecar=js, table=ragged[:200],
                                  error=repr(e)[:200])
            if frame_snapshot(ti.dataframe) != frame_before:
                rec.violation("C06:table-changed-by-assembly", sidecar=js, table=tsv[:200])
            if sc.loaded_dict != side_before:
                rec.violation("C06:sidecar-changed-by-assembly", sidecar=js, now=json.dumps(sc.loaded_dict)[:300])
            if [str(t) for t in ti.dataframe.dtypes] != dtypes_before:
                rec.n("observed_dtype_drift")
    rec.state((label, "base"))


def edit_after_assembly(env, rec, ti, alpha, tsv, js):
    from hed.models.tabular_input import TabularInput
    from hed.models.sidecar import Sidecar
    from hed.models.hed_string import HedString
    for ci_, cname in enumerate(list(ti.dataframe.columns)):
        if cname not in alpha or len(alpha[cname]) < 2:
            continue
        other = alpha[cname][1] if str(ti.dataframe.iloc[0, ci_]) != alpha[cname][1] else alpha[cname][0]
        for new_cell in (other, "brandnew"):
            try:
                a = TabularInput(io.StringIO(tsv), sidecar=Sidecar(io.StringIO(js)))
                b = TabularInput(io.StringIO(tsv), sidecar=Sidecar(io.StringIO(js)))
                b.set_cell(0, ci_, HedString(new_cell, env.schema))
                rb = list(b.series_a)
            except Exception:
                continue        # the edit itself is not possible on a fresh table: nothing to compare
            try:
                list(a.series_a)
                a.set_cell(0, ci_, HedString(new_cell, env.schema))
                ra = list(a.series_a)
            except Exception as e:
                rec.violation(f"C06:edit-after-assembly-raises:{type(e).__name__}", sidecar=js, column=cname,
                              new_cell=new_cell, error=repr(e)[:200])
                return
            rec.n("transitions", 4)
            if ra != rb:
                rec.violation("C06:assembly-after-edit-differs-from-fresh-edited-table", sidecar=js, column=cname,
                              new_cell=new_cell, got=ra[0], expected=rb[0])
                return


def cls(label, spec, row):
    k = label.split(":")[0]
    k = "".join(ch for ch in k if not ch.isdigit())
    na = [c for c in row if row[c] in ("n/a", "zz")]
    return k + (":target-n/a" if na else ":all-present")


class Env:
    def __init__(self):
        from hed import load_schema_version
        self.schema = load_schema_version("8.3.0")


def spreadsheet_cases(rec, env):
    """SpreadsheetInput with tag columns and a prefix dictionary."""
    import pandas as pd
    from hed.models.spreadsheet_input import SpreadsheetInput
    cells_tag = ["Red", "n/a", "(Blue, Green)", ""]
    cells_val = ["abc", "n/a"]
    rows = list(itertools.product(cells_tag, cells_tag, cells_val))
    for tagcols, prefix in (([0, 1], {2: "Label/"}), (["t1", "t2"], {"v": "Label"}), ([1], {}), (["t1"], {"v": "Description/"})):
        tsv = "t1\tt2\tv\n" + "".join("\t".join(r) + "\n" for r in rows)
        try:
            si = SpreadsheetInput(io.StringIO(tsv), file_type=".tsv", tag_columns=tagcols, column_prefix_dictionary=prefix)
            got = list(si.series_a)
            got2 = list(si.series_a)
        except Exception as e:
            rec.violation("C06:spreadsheet-raises:" + type(e).__name__, tag_columns=tagcols, prefix=prefix, error=repr(e)[:200])
            continue
        names = {0: "t1", 1: "t2", 2: "v"}
        tnames = [names.get(c, c) for c in tagcols]
        pnames = {names.get(c, c): p for c, p in prefix.items()}
        for r, g in zip(rows, got):
            rec.n("evaluations")
            row = dict(zip(["t1", "t2", "v"], r))
            items = []
            for c in ("t1", "t2", "v"):
                cell = row[c]
                if cell in ("", "n/a"):
                    continue
                if c in tnames:
                    items.extend(to_tree(cell))
                elif c in pnames:
                    p = pnames[c]
                    items.append((p if p.endswith("/") else p + "/") + cell)
            if not well_formed(g) or canon_top(to_tree(g)) != canon_top(items):
                rec.violation("C06:spreadsheet-assembly-differs", tag_columns=tagcols, prefix=prefix, row=row, got=g)
        if got != got2:
            rec.violation("C06:spreadsheet-repeated-assembly-differs", tag_columns=tagcols)
        rec.outcome("spreadsheet")


def worker(rec, shard, nshards, thorough, seed):
    env = Env()
    cases = list(build_cases(thorough))
    for ci in core.shard_order(len(cases), shard, nshards, seed):
        label, sidecar, spec, alpha = cases[ci]
        check_case(env, rec, label, sidecar, spec, alpha, thorough)
        if ci % 17 == 0:
            rec.sample({"case": label, "sidecar": sidecar, "cells": alpha})
    if shard == 0:
        spreadsheet_cases(rec, env)


RESET_SIDECARS = {
    "none": None,
    "plain": {"tt": {"HED": {"go": "Red", "stop": "Square"}}, "val": {"HED": "Label/#"}},
    "refs": {"tt": {"HED": {"go": "Red, ({val}, {HED})", "stop": "Square, {val}"}}, "val": {"HED": "Label/#"}},
    "other-ref": {"tt": {"HED": {"go": "(Red, {HED})", "stop": "Square"}}, "val": {"HED": "ID/#"}},
}
RESET_TABLE = "onset\ttt\tval\tHED\n1\tgo\t5\tGreen\n2\tgo\tn/a\tn/a\n3\tstop\t7\tBlue\n"


def mapper_reset_check(ctx):
    """E2 on one table object: every sequence (to depth 3) of sidecar replacements through reset_column_mapper; after each
    step the assembled rows equal those of a table built with that sidecar from the start."""
    from hed.models.tabular_input import TabularInput
    from hed.models.sidecar import Sidecar
    rec = ctx.rec

    def sc(name):
        d = RESET_SIDECARS[name]
        return None if d is None else Sidecar(io.StringIO(json.dumps(d)))
    fresh = {n: list(TabularInput(io.StringIO(RESET_TABLE), sidecar=sc(n)).series_a) for n in RESET_SIDECARS}
    for d in (1, 2, 3):
        for hist in itertools.product(RESET_SIDECARS, repeat=d + 1):
            if any(a == b for a, b in zip(hist, hist[1:])):
                continue
            rec.n("evaluations")
            rec.n("transitions", d)
            rec.n("distinct_nontrivial")
            rec.state(("mapper-reset", hist[0], hist[-1], d))
            try:
                ti = TabularInput(io.StringIO(RESET_TABLE), sidecar=sc(hist[0]))
                list(ti.series_a)
                for step, n in enumerate(hist[1:]):
                    ti.reset_column_mapper(sc(n))
                    got = list(ti.series_a)
                    if got != fresh[n]:
                        rec.violation("C06:history:assembly-after-sidecar-replacement-differs-from-fresh-table",
                                      history=list(hist[:step + 2]), fresh=fresh[n], got=got)
                        break
            except Exception as e:
                rec.violation("C06:history:sidecar-replacement-raises:" + type(e).__name__, history=list(hist), error=repr(e)[:200])
            rec.outcome("mapper-reset")


LIST_SECOND = [{"tt": {"HED": {"go": "Green"}}}, {"tt": {"Description": "annotation switched off"}},
               {"tt": {"HED": {"go": "(Green, {HED})", "stop": "Circle"}}, "val": {"Description": "no annotation"}},
               {"val": {"HED": "ID/#"}}, {}]


def sidecar_list_check(ctx):
    """A sidecar given as a list of files: a later file replaces the columns it describes, entry by entry of the top level
    (the same rows as from the single dictionary {**first, **second, ...})."""
    import tempfile
    import shutil
    from hed.models.tabular_input import TabularInput
    from hed.models.sidecar import Sidecar
    rec = ctx.rec
    firsts = [RESET_SIDECARS["refs"], RESET_SIDECARS["plain"]]
    folder = tempfile.mkdtemp(dir="/dev/shm", prefix="verif-c06-")
    try:
        for first in firsts:
            for second in LIST_SECOND:
                for third in (None, LIST_SECOND[0]):
                    dicts = [first, second] + ([third] if third is not None else [])
                    paths = []
                    for k, d in enumerate(dicts):
                        paths.append(os.path.join(folder, f"s{k}.json"))
                        with open(paths[-1], "w") as f:
                            json.dump(d, f)
                    merged = {}
                    for d in dicts:
                        merged.update(d)
                    rec.n("evaluations")
                    rec.n("transitions", len(dicts))
                    rec.n("distinct_nontrivial")
                    try:
                        want = list(TabularInput(io.StringIO(RESET_TABLE), sidecar=Sidecar(io.StringIO(json.dumps(merged)))).series_a)
                        got = list(TabularInput(io.StringIO(RESET_TABLE), sidecar=Sidecar(paths)).series_a)
                    except Exception as e:
                        rec.violation("C06:sidecar-list:raises:" + type(e).__name__, sidecars=dicts, error=repr(e)[:200])
                        continue
                    if got != want:
                        rec.violation("C06:sidecar-list:later-file-does-not-replace-the-column-entry", sidecars=dicts,
                                      expected=want, got=got)
                    rec.outcome("sidecar-list")
    finally:
        shutil.rmtree(folder, ignore_errors=True)


def sidecar_edit_check(ctx):
    """E2 on one Sidecar object: it is used for a table, edited in place (an entry of an existing column gets, loses or changes
    its annotation), and used again: the rows are those of a sidecar read from the edited document."""
    from hed.models.tabular_input import TabularInput
    from hed.models.sidecar import Sidecar
    rec = ctx.rec
    start = {"tt": {"HED": {"go": "Red, {val}", "stop": "Square"}}, "val": {"Description": "a value, not annotated"},
             "HED": {"Description": "free annotations"}}
    edits = {
        "annotate-val": lambda d: d.__setitem__("val", {"HED": "Label/#"}),
        "val-other-template": lambda d: d.__setitem__("val", {"HED": "ID/#"}),
        "unannotate-val": lambda d: d.__setitem__("val", {"Description": "again without annotation"}),
        "tt-without-reference": lambda d: d["tt"]["HED"].__setitem__("go", "Green"),
        "tt-level-added": lambda d: d["tt"]["HED"].__setitem__("stop", "(Blue, {val})"),
    }
    for hist in (h for n in (1, 2, 3) for h in itertools.permutations(edits, n)):
        rec.n("evaluations")
        rec.n("transitions", len(hist))
        rec.n("distinct_nontrivial")
        rec.state(("sidecar-edit", tuple(sorted(hist))))
        try:
            sc = Sidecar(io.StringIO(json.dumps(start)))
            list(TabularInput(io.StringIO(RESET_TABLE), sidecar=sc).series_a)
            for step, name in enumerate(hist):
                edits[name](sc.loaded_dict)
                got = list(TabularInput(io.StringIO(RESET_TABLE), sidecar=sc).series_a)
                want = list(TabularInput(io.StringIO(RESET_TABLE), sidecar=Sidecar(io.StringIO(json.dumps(sc.loaded_dict)))).series_a)
                if got != want:
                    rec.violation("C06:history:sidecar-edited-in-place:rows-differ-from-a-sidecar-read-from-the-document",
                                  history=list(hist[:step + 1]), document=json.dumps(sc.loaded_dict), expected=want, got=got)
                    break
        except Exception as e:
            rec.violation("C06:history:sidecar-edit-raises:" + type(e).__name__, history=list(hist), error=repr(e)[:200])
        rec.outcome("sidecar-edit")


def run(ctx):
    ncases = sum(1 for _ in build_cases(ctx.thorough))
    ctx.rec.notes["bounds"] = {"sidecars": ncases, "reference_positions": REF_POSITIONS, "two_reference_templates": TWO_REFS,
                               "history_length": 3 if ctx.thorough else 2}
    ctx.parallel(worker, ctx.thorough, ctx.seed)
    mapper_reset_check(ctx)
    sidecar_list_check(ctx)
    sidecar_edit_check(ctx)
    ctx.rec.counts["states"] = len(ctx.rec.states)
    ctx.rec.notes["observed_dtype_drift"] = ctx.rec.counts.get("observed_dtype_drift", 0)


def replay(ctx, case):
    from hed.models.tabular_input import TabularInput
    from hed.models.sidecar import Sidecar
    if "row" not in case or "sidecar" not in case:
        return []
    row = case["row"]
    cols = list(row)
    tsv = "\t".join(cols) + "\n" + "\t".join(row[c] for c in cols) + "\n"
    ti = TabularInput(io.StringIO(tsv), sidecar=Sidecar(io.StringIO(case["sidecar"])))
    got = list(ti.series_a)[0]
    if got == case.get("got"):
        return [("C06:replayed", {"row": row, "got": got})]
    return []
