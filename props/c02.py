"""C02 - parsing is total and the parse tree mirrors the source text.

Engine E1: every string of <= N tokens over the delimiter alphabet (plus discovered literals), executed on the
real HedString; oracle = a 30-line reference parser written from the statement.
"""
from mc import core, discover

ID = "C02"
LEVEL = "model_checking"
RULE = ("all token strings of length <= N over the alphabet {a, Red, ' ', ',', '(', ')', '/'} + literals discovered in "
        "split_hed_string/split_into_groups (and a smaller N over an extended alphabet with tab, NBSP, non-ASCII, "
        "'#', ':', braces, NUL); every string is a distinct case; non-trivial = contains at least one delimiter and "
        "one tag character; a 'state' is a distinct (reference tree shape, balanced?) class, a 'transition' is one "
        "execution of parse / print / re-parse / validate on the implementation")
ASSUMPTIONS = [
    "blank means U+0020 (the tokenizer's notion); on the extended alphabet other white space may or may not be trimmed",
    "totality over all Unicode is argued by alphabet abstraction: the tokenizer branches only on the discovered literal set",
    "schema 8.3.0 is used to identify 'Red'; identification does not influence tokenisation",
]

BASE = ["a", "Red", " ", ",", "(", ")", "/"]
EXT = ["\t", " ", "é", "́", ":", "#", "{", "}", "\x00", "\n"]
DELIMS = ",()"


def alphabet(extended):
    found = discover.literal_chars("hed/models/hed_string.py",
                                   {"split_hed_string", "split_into_groups", "HedString"})
    sigma = list(BASE)
    for ch in sorted(found):
        if ch not in sigma and ch not in "abcdefghijklmnopqrstuvwxyzABCDEFGHIJKLMNOPQRSTUVWXYZ_":
            sigma.append(ch)
    if extended:
        sigma += [c for c in EXT if c not in sigma]
    return sigma


# ---------------------------------------------------------------------------------------------
# reference parser (independent of hed)

def ref_parse(text):
    """Return (balanced, tree).  tree = list of items; item = ('t', start, end) | ('g', start, end, [items])."""
    stack = [[]]
    starts = []
    run_start = None
    n = len(text)

    def flush(run_end):
        nonlocal run_start
        if run_start is None:
            return
        s, e = run_start, run_end
        while s < e and text[s] == " ":
            s += 1
        while e > s and text[e - 1] == " ":
            e -= 1
        if e > s:
            stack[-1].append(("t", s, e))
        run_start = None

    balanced = True
    for i, ch in enumerate(text):
        if ch in DELIMS:
            flush(i)
            if ch == "(":
                stack.append([])
                starts.append(i)
            elif ch == ")":
                if len(stack) == 1:
                    balanced = False
                    break
                items = stack.pop()
                stack[-1].append(("g", starts.pop(), i + 1, items))
        else:
            if run_start is None:
                run_start = i
    if balanced:
        flush(n)
        if len(stack) != 1:
            balanced = False
    return balanced, (stack[0] if balanced else [])


def shape(items):
    return tuple("t" if it[0] == "t" else shape(it[3]) for it in items)


def impl_tree(group, HedTag):
    out = []
    for ch in group.children:
        if isinstance(ch, HedTag):
            out.append(("t", ch.span[0], ch.span[1]))
        else:
            out.append(("g", ch.span[0], ch.span[1], impl_tree(ch, HedTag)))
    return out


def impl_shape(group, HedTag):
    return tuple("t" if isinstance(ch, HedTag) else impl_shape(ch, HedTag) for ch in group.children)


def form_list(group, HedTag, form):
    return [getattr(ch, form) if isinstance(ch, HedTag) else form_list(ch, HedTag, form) for ch in group.children]


def check_one(text, schema, strict_blank=True):
    """Return list of (fingerprint, info) violations for one text."""
    from hed.models.hed_string import HedString
    from hed.models.hed_tag import HedTag
    out = []
    balanced, ref = ref_parse(text)
    try:
        hs = HedString(text, schema)
    except Exception as e:  # totality
        return [("raises:construct:" + type(e).__name__, {"text": text, "error": repr(e)[:200]})], balanced
    if balanced:
        try:
            tree = impl_tree(hs, HedTag)
            tags = hs.get_all_tags()
            groups = hs.get_all_groups()
        except Exception as e:
            return [("raises:walk:" + type(e).__name__, {"text": text, "error": repr(e)[:200]})], balanced
        if strict_blank:
            if tree != ref:
                out.append(("tree-differs", {"text": text, "expected": ref, "got": tree}))
        else:
            if not lenient_same(tree, ref, text):
                out.append(("tree-differs-ext", {"text": text, "expected": ref, "got": tree}))
        nref_tags = count(ref, "t")
        if len(tags) != nref_tags:
            out.append(("tag-count", {"text": text, "expected": nref_tags, "got": len(tags)}))
        if len(groups) != count(ref, "g") + 1:
            out.append(("group-count", {"text": text, "expected": count(ref, "g") + 1, "got": len(groups)}))
        for t in tags:
            if t.org_tag != text[t.span[0]:t.span[1]]:
                out.append(("org-tag-not-slice", {"text": text, "span": t.span, "org_tag": t.org_tag}))
            ext = t.extension
            if ext and not t.org_tag.endswith(ext):
                out.append(("extension-not-a-suffix-of-the-source-tag", {"text": text, "org_tag": t.org_tag, "extension": ext}))
        for g in groups[1:]:
            s, e = g.span
            if not (text[s] == "(" and text[e - 1] == ")") or g.get_original_hed_string() != text[s:e]:
                out.append(("group-span", {"text": text, "span": [s, e]}))
        if hs.get_original_hed_string() != text:
            out.append(("original-string", {"text": text}))
        # print and re-parse in the three forms (+ str)
        shp = impl_shape(hs, HedTag)
        for form in ("org_tag", "short_tag", "long_tag", "str", "original"):
            try:
                printed = str(hs) if form == "str" else hs.get_as_original() if form == "original" else hs.get_as_form(form)
                hs2 = HedString(printed, schema)
                ok = impl_shape(hs2, HedTag) == shp and hs2 == hs
                if ok and form == "original":
                    ok = printed == hs.get_as_form("org_tag")
                if ok and form not in ("str", "original"):
                    # printing the re-parsed tree in the same form is the identity (tag texts preserved)
                    ok = form_list(hs2, HedTag, form) == form_list(hs, HedTag, form)
                if ok and form in ("short_tag", "long_tag"):
                    ok = hs2.get_as_form(form) == printed
            except Exception as e:
                out.append(("raises:reparse:" + type(e).__name__, {"text": text, "form": form, "error": repr(e)[:200]}))
                continue
            if not ok:
                out.append(("reparse-differs:" + form, {"text": text, "form": form, "printed": printed}))
    else:
        if hs.children:
            out.append(("unbalanced-nonempty-tree", {"text": text, "got": str(hs)}))
        try:
            issues = hs.validate()
            codes = [i.get("code") for i in issues]
        except Exception as e:
            out.append(("raises:validate:" + type(e).__name__, {"text": text, "error": repr(e)[:200]}))
            codes = None
        if codes is not None and "PARENTHESES_MISMATCH" not in codes:
            out.append(("unbalanced-no-mismatch-issue", {"text": text, "codes": codes}))
    return out, balanced


def lenient_same(tree, ref, text):
    """Extended alphabet: spans may additionally trim non-blank white space; everything else must agree."""
    if len(tree) != len(ref):
        # a run consisting only of white space other than blanks may yield no tag
        ref = [it for it in ref if not (it[0] == "t" and not text[it[1]:it[2]].strip())]
        if len(tree) != len(ref):
            return False
    for a, b in zip(tree, ref):
        if a[0] != b[0]:
            return False
        if a[0] == "t":
            if (a[1], a[2]) != (b[1], b[2]):
                sa, sb = text[a[1]:a[2]], text[b[1]:b[2]]
                if not (b[1] <= a[1] and a[2] <= b[2] and sa.strip() == sb.strip() and sa):
                    return False
        else:
            if (a[1], a[2]) != (b[1], b[2]) or not lenient_same(a[3], b[3], text):
                return False
    return True


def count(items, kind):
    c = 0
    for it in items:
        if it[0] == kind:
            c += 1
        if it[0] == "g":
            c += count(it[3], kind)
    return c


# ---------------------------------------------------------------------------------------------

def space_size(a, n):
    return sum(a ** k for k in range(n + 1))


def decode(i, sigma, n):
    a = len(sigma)
    k = 0
    while i >= a ** k:
        i -= a ** k
        k += 1
    toks = []
    for _ in range(k):
        toks.append(sigma[i % a])
        i //= a
    return "".join(reversed(toks))


def worker(rec, shard, nshards, sigma, n, strict, seed, label):
    from hed import load_schema_version
    schema = load_schema_version("8.3.0")
    total = space_size(len(sigma), n)
    for i in core.shard_order(total, shard, nshards, seed):
        text = decode(i, sigma, n)
        viols, balanced = check_one(text, schema, strict)
        rec.n("evaluations")
        rec.n("transitions", 5 if balanced else 2)
        _, ref = ref_parse(text)
        st = (balanced, shape(ref))
        rec.state(st)
        rec.outcome(("balanced" if balanced else "unbalanced") + ":" + ("ok" if not viols else viols[0][0]))
        if any(c in DELIMS for c in text) and any(c not in DELIMS + " " for c in text):
            rec.n("distinct_nontrivial")
        for fp, info in viols:
            rec.violation(fingerprint(fp, info), kind=fp, **info)
        if i % 9973 == 17:
            rec.sample({"text": text, "balanced": balanced, "ref_tree": repr(ref)[:120]})


FOLD_BASES = ["Definition/Foo", "Press/x", "Press", "Glass/Green-ish", "Offset", "Respond", "Fixate/a b", "Loudness/3",
              "Item/Strasse/Red", "Item/fix/Blue", "Stiff/x", "Sensory-event"]
FOLD_SUBS = [("ss", "\u00df"), ("fi", "\ufb01"), ("ff", "\ufb00"), ("s", "\u017f"), ("i", "\u0130"), ("st", "\ufb06"), ("S", "\u1e9e"),
             ("n", "\u0149")]
FOLD_CONTEXTS = ["{}", "({}, Red)", "Blue, {}", "(({}))", "{}, {}"]


def fold_texts():
    """Schema names (and extensions) with one piece replaced by a character whose case folding has another length."""
    out = []
    for b in FOLD_BASES:
        for old, new in FOLD_SUBS:
            for at in range(len(b)):
                if b.startswith(old, at) or b.casefold().startswith(old, at):
                    v = b[:at] + new + b[at + len(old):]
                    for c in FOLD_CONTEXTS:
                        out.append(c.format(*([v] * c.count("{}"))))
    return sorted(set(out))


MAGIC_TEXTS = ["n/a", "N/A", "n/A", " n/a ", "  N/a", "n/a ", "(n/a)", "n/a, Red", "Red, n/a", "(Red, n/a)", "n/a/x", "n/b", "na",
               "null", "NULL", "None", "none", "nan", "NaN", "#", "HED", "true", "false", "0", "-", "_", "n/a,n/a", "n/a\t", "\tn/a"]
DEPTHS = [8, 32, 64, 99, 100, 101, 102, 128, 150, 200]


def deep_texts():
    out = []
    for d in DEPTHS:
        out.append("(" * d + "Red" + ")" * d)
        out.append("Blue, " + "(" * d + "Red, (a)" + ")" * d)
        out.append("(" * d + "Red" + ")" * (d - 1) + ", a)")
    return out


def worker_special(rec, shard, nshards, seed):
    """Texts no bounded alphabet spells: missing-value words used as the whole annotation, and very deep nesting."""
    from hed import load_schema_version
    schema = load_schema_version("8.3.0")
    texts = [(t, True) for t in MAGIC_TEXTS if "\t" not in t] + [(t, False) for t in MAGIC_TEXTS if "\t" in t] + \
        [(t, True) for t in deep_texts()]
    for i in core.shard_order(len(texts), shard, nshards, seed):
        text, strict = texts[i]
        viols, balanced = check_one(text, schema, strict)
        rec.n("evaluations")
        rec.n("transitions", 5)
        rec.n("distinct_nontrivial")
        rec.state(("special", text[:6], len(text) > 40))
        rec.outcome("special:" + ("ok" if not viols else viols[0][0]))
        for fp, info in viols:
            info = dict(info, text=info.get("text", "")[:80] + ("..." if len(info.get("text", "")) > 80 else ""))
            for k in ("expected", "got", "printed"):
                if k in info:
                    info[k] = repr(info[k])[:200]
            rec.violation("C02:special-text:" + fp, kind=fp, **info)


def worker_fold(rec, shard, nshards, seed):
    from hed import load_schema_version
    for version in ("8.3.0", "8.2.0"):
        schema = load_schema_version(version)
        texts = fold_texts()
        for i in core.shard_order(len(texts), shard, nshards, seed):
            viols, balanced = check_one(texts[i], schema, True)
            rec.n("evaluations")
            rec.n("transitions", 5)
            rec.n("distinct_nontrivial")
            rec.state(("fold", version, texts[i][:1]))
            rec.outcome("fold:" + ("ok" if not viols else viols[0][0]))
            for fp, info in viols:
                rec.violation("C02:case-folding-changes-length:" + fp, kind=fp, schema=version, **info)


def fingerprint(fp, info):
    text = info.get("text", "")
    if fp == "unbalanced-no-mismatch-issue" and text.count("(") == text.count(")"):
        return "C02:unbalanced-by-nesting-with-equal-counts:no-PARENTHESES_MISMATCH"
    return "C02:" + fp


def run(ctx):
    from hed import load_schema_version
    load_schema_version("8.3.0")  # warm the lru cache before forking
    n_base = ctx.pick(6, 7)
    n_ext = ctx.pick(4, 5)
    sig = alphabet(False)
    sig_ext = alphabet(True)
    ctx.rec.notes["bounds"] = {"N_base": n_base, "alphabet_base": sig, "N_ext": n_ext,
                               "alphabet_ext": [repr(c) for c in sig_ext],
                               "strings_base": space_size(len(sig), n_base),
                               "strings_ext": space_size(len(sig_ext), n_ext)}
    ctx.parallel(worker, sig, n_base, True, ctx.seed, "base")
    ctx.parallel(worker, sig_ext, n_ext, False, ctx.seed, "ext")
    ctx.rec.notes["bounds"]["fold_texts"] = len(fold_texts())
    ctx.parallel(worker_fold, ctx.seed)
    ctx.rec.notes["bounds"]["special_texts"] = {"magic": MAGIC_TEXTS, "nesting_depths": DEPTHS}
    ctx.parallel(worker_special, ctx.seed)
    ctx.rec.counts["states"] = len(ctx.rec.states)


def replay(ctx, case):
    from hed import load_schema_version
    schema = load_schema_version("8.3.0")
    text = case["text"]
    strict = all(c in "".join(BASE) for c in text)
    viols, _ = check_one(text, schema, strict)
    return [(fingerprint(fp, info), info) for fp, info in viols]
