"""C16 - each dataset file is validated with its inherited, merged sidecar.

Engine E1 on real directory trees: every tree of the layout grammar (2 subjects, optional session level, tasks A/B, optional
run entity; sidecars at every subset of {root, subject, session} directories with every entity subset that keeps at most one
applicable sidecar per directory; excluded directories with decoys) is written to tmpfs and loaded with BidsDataset.
Oracle: reference BIDS inheritance (root-to-leaf, entity-subset test, deeper overrides per column key).
"""
import contextlib
import io
import itertools
import json
import os
import shutil
import sys

from mc import core

ID = "C16"
LEVEL = "model_checking"
RULE = ("layouts = {no session, session level} x {no run, run entity}; events files = sub-01 task-A, sub-01 task-B, sub-02 task-A; "
        "(task A is spelled task-Adiscriminationlong, so that a root sidecar has a longer path than a deeper one) sidecars = root in {none, events, task-A, task-B, task-A+task-B}, sub-01 in the same 5 (with sub entity), sub-02 in "
        "{none, sub}, session directory in {none, sub+ses, sub+ses+task-A}, decoys in derivatives/ and code/; every sidecar "
        "overrides the shared column with its own tag, owns one extra column, and some carry an invalid tag.  distinct case = "
        "tree; non-trivial = an events file with >= 2 applicable sidecars; state = (layout, sidecar placement); transition = "
        "one BidsDataset load + validate")
ASSUMPTIONS = [
    "issues are compared as multisets of (code, file name, row, column / sidecar column), the expected side computed with the "
    "library's own Sidecar / TabularInput validation on the reference-merged sidecars (differential)",
    "'each merged sidecar' is read as: every sidecar file validated with the merge of its own inheritance chain",
]

TAGS = ["Red", "Blue", "Green", "Yellow", "Purple", "Orange", "Pink", "Gray", "Cyan", "Black", "White", "Brown"]


def entities(name):
    base = name[:-len("_events.json")] if name.endswith("_events.json") else name[:-len("_events.tsv")] \
        if name.endswith("_events.tsv") else ""
    out = {}
    for piece in base.split("_"):
        if "-" in piece:
            k, _, v = piece.partition("-")
            out[k] = v
    return out


def applies(sidecar_rel, target_rel):
    """Reference: the sidecar lies in a directory on the path from the root to the target and its entities all occur, with
    the same values, in the target's name."""
    sdir = os.path.dirname(sidecar_rel)
    tdir = os.path.dirname(target_rel)
    if sdir and not (tdir == sdir or tdir.startswith(sdir + "/")):
        return False
    se, te = entities(os.path.basename(sidecar_rel)), entities(os.path.basename(target_rel))
    return all(te.get(k) == v for k, v in se.items())


def chain(sidecars, target_rel):
    app = [s for s in sidecars if applies(s, target_rel)]
    return sorted(app, key=lambda s: (s.count("/"), s))


def build_trees(thorough):
    trees = []
    root_opts = [[], ["events.json"], ["task-Adiscriminationlong_events.json"], ["task-B_events.json"],
                 ["task-Adiscriminationlong_events.json", "task-B_events.json"]]
    sub1_opts = [[], ["sub-01_events.json"], ["sub-01_task-Adiscriminationlong_events.json"], ["sub-01_task-B_events.json"],
                 ["sub-01_task-Adiscriminationlong_events.json", "sub-01_task-B_events.json"]]
    sub2_opts = [[], ["sub-02_events.json"]]
    for ses in (False, True, "datatype", "capital"):
        for run in ((False, True) if thorough else (False,)):
            def ev(sub, task, ses=ses, run=run):
                # "datatype": the events file lies one directory below the session directory (sub-01/ses-1/eeg/...)
                d = f"sub-{sub}" + ("/ses-1" if ses else "") + ("/eeg" if ses == "datatype" else "/Stimuli" if ses == "capital" else "")
                n = f"sub-{sub}" + ("_ses-1" if ses else "") + f"_task-{task}" + ("_run-1" if run else "") + "_events.tsv"
                return d + "/" + n
            # the last one lies in the dataset root itself (no directory component below the root)
            events = [ev("01", "Adiscriminationlong"), ev("01", "B"), ev("02", "Adiscriminationlong"), "task-Adiscriminationlong" + ("_run-1" if run else "") + "_events.tsv"]
            ses_opts = [[]] if not ses else [[], ["sub-01_ses-1_events.json"], ["sub-01_ses-1_task-Adiscriminationlong_events.json"]]
            # "capital": the events files and the deepest sidecars lie in sub-XX/ses-1/Stimuli - only the exact names
            # 'stimuli', 'code', ... are left out, a directory differing in letter case takes part like any other
            for r, s1, s2, se in itertools.product(root_opts if ses != "capital" else root_opts[:2], sub1_opts, sub2_opts, ses_opts):
                for decoy in ((False, True) if (thorough or (not r and not se)) else (False,)):
                    sidecars = list(r) + ["sub-01/" + x for x in s1] + ["sub-02/" + x for x in s2] + \
                        [("sub-01/ses-1/Stimuli/" if ses == "capital" else "sub-01/ses-1/") + x for x in se]
                    trees.append({"ses": ses, "run": run, "events": events, "sidecars": sidecars, "decoy": decoy})
    return trees


def sidecar_content(index, rel, total=0):
    tag = TAGS[index % len(TAGS)]
    own = f"own{index}"
    if total == 1 and rel == "task-B_events.json":
        # the only sidecar of the dataset, and its only HED keys are misplaced (inside Levels): still reported
        return {"shared": {"Description": "no annotation at column level", "Levels": {"x": {"HED": "Red"}, "y": {"HED": "Blue"}}}}
    d = {"shared": {"HED": {"x": tag, "y": "Square"}},
         own: {"HED": {"x": f"Label/{own}", "y": "Circle"}}}
    # deeper files replace the whole column entry: vary the sub-keys so that a per-sub-key merge is observable
    if index % 2 == 0:
        d["shared"]["Levels"] = {"x": f"level from sidecar {index}"}
    if index % 5 in (1, 3):
        d["shared"] = {"Description": f"sidecar {index} describes the column without annotating it"}
    if index % 3 == 1:
        d[own]["HED"]["y"] = f"Zzq{index}"            # invalid tag: attributable sidecar + row issues
    if index % 4 == 2:
        d["valcol"] = {"HED": "Description/#"}
    return d


def write_tree(root, tree):
    if os.path.exists(root):
        shutil.rmtree(root)
    os.makedirs(root)
    with open(os.path.join(root, "dataset_description.json"), "w") as f:
        json.dump({"Name": "t", "BIDSVersion": "1.8.0", "HEDVersion": "8.3.0"}, f)
    contents = {}
    for i, rel in enumerate(tree["sidecars"]):
        p = os.path.join(root, rel)
        os.makedirs(os.path.dirname(p), exist_ok=True)
        contents[rel] = sidecar_content(i, rel, len(tree["sidecars"]))
        with open(p, "w") as f:
            json.dump(contents[rel], f)
    cols = ["onset", "shared", "valcol", "HED"] + [f"own{i}" for i in range(len(tree["sidecars"]))]
    for j, rel in enumerate(tree["events"]):
        p = os.path.join(root, rel)
        os.makedirs(os.path.dirname(p), exist_ok=True)
        rows = [["1.0", "x", "abc", "Triangle"] + ["x"] * len(tree["sidecars"]),
                ["2.0", "y", "n/a", "n/a"] + ["y"] * len(tree["sidecars"]),
                ["3.0", "x", "n/a", "Zzqrow" if (j == 1 and len(tree["sidecars"]) % 2 == 1) else "n/a"] + ["n/a"] * len(tree["sidecars"])]
        with open(p, "w") as f:
            f.write("\t".join(cols) + "\n" + "".join("\t".join(r) + "\n" for r in rows))
    if tree["decoy"]:
        for d in ("derivatives", "code"):
            p = os.path.join(root, d, "sub-01")
            os.makedirs(p, exist_ok=True)
            with open(os.path.join(root, d, "task-Adiscriminationlong_events.json"), "w") as f:
                json.dump({"shared": {"HED": {"x": "Zzqdecoy", "y": "Zzqdecoy2"}}}, f)
            with open(os.path.join(p, "sub-01_task-Adiscriminationlong_events.tsv"), "w") as f:
                f.write("onset\tHED\n1.0\tZzqdecoyrow\n")
            # the same below the root: an excluded name at any depth takes no part
            sub = "sub-01/ses-1" if tree["ses"] else "sub-01"
            p = os.path.join(root, sub, d)
            os.makedirs(p, exist_ok=True)
            with open(os.path.join(p, "sub-01_task-Adiscriminationlong_events.json"), "w") as f:
                json.dump({"shared": {"HED": {"x": "Zzqnested", "y": "Zzqnested2"}}}, f)
            with open(os.path.join(p, "sub-01_task-Adiscriminationlong_desc-copy_events.tsv"), "w") as f:
                f.write("onset\tHED\n1.0\tZzqnestedrow\n")
    return contents


def issue_key(i):
    return (i.get("code"), os.path.basename(str(i.get("ec_filename", ""))), i.get("ec_row"), i.get("ec_column"),
            i.get("ec_sidecarColumnName"), i.get("ec_sidecarKeyName"), i.get("severity"))


def check_tree(env, rec, root, tree, ti):
    from hed.tools.bids.bids_dataset import BidsDataset
    from hed.models.sidecar import Sidecar
    from hed.models.tabular_input import TabularInput
    contents = write_tree(root, tree)
    rec.n("evaluations")
    rec.n("transitions")
    where = {"sidecars": tree["sidecars"], "events": tree["events"], "decoy": tree["decoy"]}
    try:
        ds = BidsDataset(root, schema=env.schema)
        group = ds.get_tabular_group("events")
    except Exception as e:
        rec.violation("C16:dataset-load-raises:" + type(e).__name__, error=repr(e)[:300], **where)
        return
    # 1. applied (merged) sidecar per events file
    multi = False
    for rel in tree["events"]:
        ch = chain(tree["sidecars"], rel)
        if len(ch) >= 2:
            multi = True
        want = {}
        for s in ch:
            want.update(contents[s])
        obj = group.datafile_dict.get(os.path.realpath(os.path.join(root, rel)))
        if obj is None:
            rec.violation("C16:events-file-not-found-by-dataset", file=rel, **where)
            continue
        got = obj.sidecar.contents.loaded_dict if obj.sidecar is not None and obj.sidecar.contents is not None else {}
        if got != want:
            rec.violation(f"C16:applied-sidecar-differs:{classify(ch, tree['sidecars'], rel)}", file=rel, chain=ch,
                          expected_columns={k: (v.get('HED') if isinstance(v, dict) else v) for k, v in want.items()},
                          got_columns={k: (v.get('HED') if isinstance(v, dict) else v) for k, v in got.items()}, **where)
            rec.outcome("applied-differs")
            return
    if multi:
        rec.n("distinct_nontrivial")
    # excluded directories take no part
    for p in list(group.datafile_dict) + list(group.sidecar_dict):
        relp = os.path.relpath(p, os.path.realpath(root))
        if any(part in ("derivatives", "code") for part in relp.split("/")[:-1]):
            rec.violation("C16:excluded-directory-file-used", file=relp, **where)
            return
    # 2. dataset issues == union of (each sidecar with its own chain) and (each events file with its merged sidecar)
    for warn in (False, True):
        try:
            got = sorted(map(issue_key, ds.validate(check_for_warnings=warn)), key=repr)
        except Exception as e:
            rec.violation("C16:dataset-validate-raises:" + type(e).__name__, error=repr(e)[:300], **where)
            return
        from hed.errors.error_reporter import ErrorHandler
        expected = []
        for s in tree["sidecars"]:
            ch = chain(tree["sidecars"], s)
            sc = Sidecar([os.path.join(root, c) for c in ch], name=os.path.basename(s))
            expected += sc.validate(env.schema, name=os.path.basename(s), error_handler=ErrorHandler(warn))
        for rel in tree["events"]:
            ch = chain(tree["sidecars"], rel)
            sc = Sidecar([os.path.join(root, c) for c in ch]) if ch else None
            tin = TabularInput(os.path.join(root, rel), sidecar=sc, name=os.path.basename(rel))
            expected += tin.validate(env.schema, name=os.path.basename(rel), error_handler=ErrorHandler(warn))
        want = sorted(map(issue_key, expected), key=repr)
        if got != want:
            extra = [k for k in got if k not in want][:5]
            missing = [k for k in want if k not in got][:5]
            rec.violation(f"C16:dataset-issues-differ:{'warnings' if warn else 'errors-only'}", extra=extra, missing=missing,
                          n_got=len(got), n_expected=len(want), **where)
            rec.outcome("issues-differ")
            return
        if not warn:
            n_errors = len(want)
        else:
            n_with_warnings = len(want)
    # 3. command line validator: non-zero iff that list is non-empty
    if ti % 4 == 0:
        from hed.scripts import hed_validator
        old = sys.argv
        sys.argv = ["hed_validator", root]
        try:
            with contextlib.redirect_stdout(io.StringIO()):
                rc = hed_validator.main()
        except SystemExit as e:
            rc = e.code
        except Exception as e:
            rec.violation("C16:cli-raises:" + type(e).__name__, error=repr(e)[:200], **where)
            rc = None
        finally:
            sys.argv = old
        if rc is not None and bool(rc) != bool(n_errors):
            rec.violation("C16:cli-exit-code", rc=rc, expected_issues=n_errors, **where)
        # the same with warnings requested, and with the machine-readable output formats
        for extra, n_expected in ((["--check-for-warnings"], n_with_warnings), (["-f", "json"], n_errors),
                                  (["-f", "json_pp", "--check-for-warnings"], n_with_warnings)):
            sys.argv = ["hed_validator", root] + extra
            buf = io.StringIO()
            try:
                with contextlib.redirect_stdout(buf):
                    rc = hed_validator.main()
            except SystemExit as e:
                rc = e.code
            except Exception as e:
                rec.violation(f"C16:cli-raises:{type(e).__name__}:{' '.join(extra)}", error=repr(e)[:200], **where)
                continue
            finally:
                sys.argv = old
            rec.n("transitions")
            if bool(rc) != bool(n_expected):
                rec.violation("C16:cli-exit-code:" + " ".join(extra), rc=rc, expected_issues=n_expected, **where)
            if "-f" in extra and n_expected:
                out = buf.getvalue()
                try:
                    parsed = json.loads(out[out.index("{"):])["issues"]
                    if len(parsed) != n_expected:
                        rec.violation("C16:cli-json-issue-count", got=len(parsed), expected=n_expected, **where)
                except Exception as e:
                    rec.violation("C16:cli-json-output-not-parseable", error=repr(e)[:120], output=out[:200], **where)
    rec.outcome(f"ok:issues={'some' if n_errors else 'none'}")


def classify(ch, sidecars, rel):
    deepest_own = chain(sidecars, ch[-1]) if ch else []
    if ch and deepest_own != ch:
        return "chain-differs-from-deepest-sidecars-own-chain"
    return f"chain-length-{len(ch)}"


class Env:
    def __init__(self):
        from hed import load_schema_version
        self.schema = load_schema_version("8.3.0")


def worker(rec, shard, nshards, scratch, thorough, seed):
    env = Env()
    trees = build_trees(thorough)
    root = os.path.join(scratch, f"ds{shard}")
    for ti in core.shard_order(len(trees), shard, nshards, seed):
        tree = trees[ti]
        rec.state((tree["ses"], tree["run"], tuple(tree["sidecars"]), tree["decoy"]))
        check_tree(env, rec, root, tree, ti)
        if ti % 97 == 0:
            rec.sample({"events": tree["events"], "sidecars": tree["sidecars"], "decoy": tree["decoy"],
                        "chains": {e: chain(tree["sidecars"], e) for e in tree["events"]}})
    shutil.rmtree(root, ignore_errors=True)


def run(ctx):
    scratch = ctx.subdir("c16")
    ctx.rec.notes["bounds"] = {"trees": len(build_trees(ctx.thorough))}
    ctx.parallel(worker, scratch, ctx.thorough, ctx.seed)
    ctx.rec.counts["states"] = len(ctx.rec.states)


def replay(ctx, case):
    env = Env()
    rec = core.Rec()
    tree = {"ses": any("ses-1" in e for e in case["events"]), "run": any("run-1" in e for e in case["events"]),
            "events": case["events"], "sidecars": case["sidecars"], "decoy": case.get("decoy", False)}
    check_tree(env, rec, os.path.join(ctx.subdir("c16r"), "ds"), tree, 0)
    return [(fp, d) for fp, lst in rec.viol.items() for d in lst[:1]]
