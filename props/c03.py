"""C03 - every spelling of a schema tag resolves to the same node and canonical forms.

Engine E1 over the complete vocabulary: every non-'#' node x every suffix path x case variants x namespace prefix x
value / extension suffix, for every bundled schema file, the merged multi-library load and a generated schema.
Oracle: the independent XML model (mc.schema_model).
"""
import os

from mc import core, schema_model

ID = "C03"
LEVEL = "model_checking"
RULE = ("for every schema configuration, every tag node x every suffix path of its long name x case variants "
        "{as written, lower, UPPER, sWAP} x suffix {none, extension, two values}; each (config, spelling) is a distinct "
        "case; non-trivial = spelling differs from the canonical short form; state = (config, node); transition = one "
        "identification / conversion executed on the implementation")
ASSUMPTIONS = [
    "case variants are str.lower/upper/swapcase of names whose case mapping round-trips (ASCII + e-acute)",
    "short names are unique inside one schema (checked from the XML; duplicates would be excluded and reported)",
]

EXT = "/Zzqext-1"
VALUES = ["/12 ms", "/AbC d_3"]


def case_variants(s):
    out = [s]
    for v in (s.lower(), s.upper(), s.swapcase()):
        if v not in out:
            out.append(v)
    return out


def generated_schema_text():
    """8.3.0 plus nodes with digits / non-ASCII / deep nesting, inserted by text edit (ground truth = the edited XML)."""
    path = os.path.join(core.SCHEMA_DATA, "HED8.3.0.xml")
    text = open(path, encoding="utf8").read()
    new_nodes = """
      <node>
         <name>Zq-root-9</name>
         <description>Generated root.</description>
         <attribute><name>extensionAllowed</name></attribute>
         <node>
            <name>Café-item</name>
            <description>Generated non ASCII.</description>
            <node>
               <name>Zq-Leaf_2</name>
               <description>Generated leaf.</description>
               <node>
                  <name>#</name>
                  <attribute><name>takesValue</name></attribute>
                  <attribute><name>valueClass</name><value>textClass</value></attribute>
               </node>
            </node>
         </node>
         <node>
            <name>ZQ-UPPER</name>
            <description>Generated upper.</description>
         </node>
      </node>
"""
    marker = "   </schema>"
    assert marker in text
    return text.replace(marker, new_nodes + marker, 1)


def build_configs(ctx):
    from hed.schema import load_schema, load_schema_version, from_string
    files = core.bundled_files()
    if not ctx.thorough:
        files = [f for f in files if f in ("HED8.3.0.xml", "HED8.0.0.xml", "HED_score_2.0.0.xml",
                                           "HED_testlib_3.0.0.xml", "HED_score_1.0.0.xml")]
    cfgs = []
    for f in files:
        p = os.path.join(core.SCHEMA_DATA, f)
        m = schema_model.load(p)
        cfgs.append((f, load_schema(p), m, ""))
        cfgs.append((f + "@tl:", load_schema(p, schema_namespace="tl:"), m, "tl:"))
    # merged multi-library load (same standard partner)
    m1 = schema_model.load(os.path.join(core.SCHEMA_DATA, "HED_testlib_2.0.0.xml"))
    m2 = schema_model.load(os.path.join(core.SCHEMA_DATA, "HED_score_1.1.0.xml"))
    merged = MergedModel([m1, m2])
    cfgs.append(("merged:testlib_2.0.0,score_1.1.0", load_schema_version("testlib_2.0.0,score_1.1.0"), merged, ""))
    cfgs.append(("merged:ml:testlib_2.0.0,score_1.1.0", load_schema_version("ml:testlib_2.0.0,score_1.1.0"),
                 merged, "ml:"))
    gtxt = generated_schema_text()
    cfgs.append(("generated:8.3.0+nodes", from_string(gtxt, ".xml"), schema_model.load(text=gtxt), ""))
    return cfgs


class MergedModel:
    """Union of models that share a standard partner (by long name)."""

    def __init__(self, models):
        self.tags = []
        seen = set()
        self.dup_short = set()
        shorts = {}
        for m in models:
            for t in m.tags:
                k = t.long.casefold()
                if k in seen:
                    continue
                seen.add(k)
                self.tags.append(t)
                s = t.name.casefold()
                if s in shorts and shorts[s] != k:
                    self.dup_short.add(s)
                shorts[s] = k
        self.models = models


def spellings(tag):
    terms = tag.terms()
    return ["/".join(terms[k:]) for k in range(len(terms))]


def suffixes(tag):
    out = [""]
    if tag.value_child is not None:
        out += VALUES
    elif tag.has("extensionAllowed"):
        out.append(EXT)
    return out


def check_tag(rec, label, schema, tag, ns, HedTag, HedString):
    long_c, short_c = tag.long, tag.name
    for sp in spellings(tag):
        for cv in case_variants(sp):
            for suf in suffixes(tag):
                text = ns + cv + suf
                rec.n("evaluations")
                rec.n("transitions", 4)
                if cv != short_c:
                    rec.n("distinct_nontrivial")
                try:
                    t = HedTag(text, schema)
                    got = (t.tag_exists_in_schema(), t.long_tag, t.short_tag, t.base_tag, t.short_base_tag,
                           t.extension, t.org_base_tag)
                    entry_long = t._schema_entry.long_tag_name if t._schema_entry else None
                except Exception as e:
                    rec.violation("C03:raises:" + type(e).__name__, config=label, text=text, error=repr(e)[:200])
                    continue
                want = (True, ns + long_c + suf, ns + short_c + suf, long_c, short_c, suf[1:], ns + cv)
                if got != want or entry_long != long_c:
                    which = [n for n, g, w in zip(("exists", "long_tag", "short_tag", "base_tag", "short_base_tag",
                                                   "extension", "org_base_tag"), got, want) if g != w]
                    if entry_long != long_c:
                        which.append("node")
                    rec.violation("C03:identify:" + "+".join(which), config=label, text=text, want=want, got=got,
                                  node=entry_long)
                    rec.outcome("identify-mismatch")
                    continue
                rec.outcome("ok" + (":ext" if suf == EXT else ":val" if suf else ""))
                # conversions: mutually inverse, idempotent, same node
                try:
                    lg, sh = t.long_tag, t.short_tag
                    tl, ts = HedTag(lg, schema), HedTag(sh, schema)
                    ok = (tl.long_tag == lg and tl.short_tag == sh and ts.long_tag == lg and ts.short_tag == sh
                          and tl._schema_entry is t._schema_entry and ts._schema_entry is t._schema_entry)
                    hs = HedString(text, schema)
                    ok = ok and hs.get_as_long() == lg and hs.get_as_short() == sh
                    if ok:
                        ok = (HedString(lg, schema).get_as_short() == sh and HedString(sh, schema).get_as_long() == lg
                              and HedString(lg, schema).get_as_long() == lg and HedString(sh, schema).get_as_short() == sh)
                except Exception as e:
                    rec.violation("C03:raises-convert:" + type(e).__name__, config=label, text=text, error=repr(e)[:200])
                    continue
                if not ok:
                    rec.violation("C03:conversion-not-inverse", config=label, text=text, long=lg, short=sh)


def worker(rec, shard, nshards, cfgs, seed):
    from hed.models.hed_tag import HedTag
    from hed.models.hed_string import HedString
    items = [(ci, ti) for ci, c in enumerate(cfgs) for ti in range(len(c[2].tags))]
    for idx in core.shard_order(len(items), shard, nshards, seed):
        ci, ti = items[idx]
        label, schema, model, ns = cfgs[ci]
        tag = model.tags[ti]
        if tag.name.casefold() in model.dup_short:
            rec.n("excluded_duplicate_short")
            continue
        rec.state((label, tag.long))
        check_tag(rec, label, schema, tag, ns, HedTag, HedString)
        if idx % 4001 == 7:
            rec.sample({"config": label, "node": tag.long, "spellings": spellings(tag)[:3],
                        "suffixes": suffixes(tag)})


def bulk_check(ctx, cfgs):
    """The bulk interface (df_util.convert_to_form) must equal the per-tag answers."""
    import pandas as pd
    from hed.models import df_util
    rec = ctx.rec
    for label, schema, model, ns in cfgs:
        if label.endswith("@tl:") and not ctx.thorough:
            continue
        tags = [t for t in model.tags if t.name.casefold() not in model.dup_short]
        short = [ns + t.name + (VALUES[0] if t.value_child is not None else "") for t in tags]
        long_ = [ns + t.long + (VALUES[0] if t.value_child is not None else "") for t in tags]
        mixed = [ns + spellings(t)[len(spellings(t)) // 2].swapcase() + (VALUES[0] if t.value_child is not None else "")
                 for t in tags]
        for src_name, src in (("short", short), ("long", long_), ("mixed", mixed)):
            for form, want in (("long_tag", long_), ("short_tag", short)):
                s = pd.Series(list(src), dtype=str)
                try:
                    df_util.convert_to_form(s, schema, form)
                    got = list(s)
                except Exception as e:
                    rec.violation("C03:bulk-raises:" + type(e).__name__, config=label, form=form, error=repr(e)[:200])
                    continue
                rec.n("evaluations", len(src))
                rec.n("transitions", len(src))
                bad = [(a, b, c) for a, b, c in zip(src, got, want) if b != c]
                if bad:
                    rec.violation("C03:bulk-differs:" + form, config=label, src=src_name, first=bad[0], count=len(bad))
                rec.outcome("bulk-" + ("ok" if not bad else "diff"))
        # group of tags in one cell
        cell = ",".join(mixed[:7]) + ",(" + ",".join(mixed[7:12]) + ")"
        df = pd.DataFrame({"HED": [cell, cell], "other": ["x", "y"]})
        df_util.convert_to_form(df, schema, "long_tag", ["HED"])
        want_cell = ",".join(long_[:7]) + ",(" + ",".join(long_[7:12]) + ")"
        if df["HED"][0] != want_cell or list(df["other"]) != ["x", "y"]:
            rec.violation("C03:bulk-cell-differs", config=label, got=df["HED"][0][:300], want=want_cell[:300])


def run(ctx):
    cfgs = build_configs(ctx)
    ctx.rec.notes["bounds"] = {"configs": [c[0] for c in cfgs], "tags_per_config": {c[0]: len(c[2].tags) for c in cfgs},
                               "case_variants": 4, "suffixes": ["", EXT] + VALUES}
    ctx.parallel(worker, cfgs, ctx.seed)
    bulk_check(ctx, cfgs)
    ctx.rec.counts["states"] = len(ctx.rec.states)


def replay(ctx, case):
    from hed.models.hed_tag import HedTag
    from hed.models.hed_string import HedString
    cfgs = build_configs(ctx)
    rec = core.Rec()
    for label, schema, model, ns in cfgs:
        if label != case.get("config"):
            continue
        for tag in model.tags:
            text = case.get("text", "")
            if text and tag.name.casefold() in text.casefold():
                check_tag(rec, label, schema, tag, ns, HedTag, HedString)
    return [(fp, d) for fp, lst in rec.viol.items() for d in lst if d.get("text") == case.get("text")]
