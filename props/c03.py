"""C03 - every spelling of a schema tag resolves to the same node and canonical forms.

Engine E1 over the complete vocabulary: every non-'#' node x every suffix path x case variants x namespace prefix x
value / extension suffix, for every bundled schema file, the merged multi-library load and a generated schema.
Oracle: the independent XML model (mc.schema_model).
"""
import itertools
import os

from mc import core, schema_model

ID = "C03"
LEVEL = "model_checking"
RULE = ("for every schema configuration, every tag node x every suffix path of its long name x case variants "
        "{as written, lower, UPPER, sWAP} x suffix {none, extension, two values}; each (config, spelling) is a distinct "
        "case; non-trivial = spelling differs from the canonical short form; state = (config, node); transition = one "
        "identification / conversion executed on the implementation.  E2 histories: one live tag (7 subjects x 3 start "
        "spellings x 2 start schemas) x every sequence up to depth 3 (thorough 5) of {read long, read short, validate under "
        "8.2.0, validate under 8.3.0, set extension (2 values), replace placeholder, copy}; after every history the forms "
        "must equal those the XML model gives for (current schema, node, extension) and long(short) must hold on fresh "
        "objects; copied-from objects must be unaffected")
ASSUMPTIONS = [
    "case variants are str.lower/upper/swapcase of names whose case mapping round-trips (ASCII + e-acute)",
    "short names are unique inside one schema (checked from the XML; duplicates would be excluded and reported)",
]

EXT = "/Zzqext-1"
VALUES = ["/12 ms", "/AbC d_3", "/a:b/c d", "/", "/data/raw/", "//x"]      # a colon and a later slash inside the value; an empty value; slashes at the ends


def case_variants(s):
    out = [s]
    for v in (s.lower(), s.upper(), s.swapcase()):
        if v not in out:
            out.append(v)
    return out


def generated_schema_text():
    """8.3.0 plus nodes with digits / non-ASCII / deep nesting, inserted by text edit (ground truth = the edited XML)."""
    path = os.path.join(core.SCHEMA_DATA, "HED8.3.0.xml")
    text = open(path, encoding="utf8").read()
    new_nodes = """
      <node>
         <name>Zq-root-9</name>
         <description>Generated root.</description>
         <attribute><name>extensionAllowed</name></attribute>
         <node>
            <name>Café-item</name>
            <description>Generated non ASCII.</description>
            <node>
               <name>Zq-Leaf_2</name>
               <description>Generated leaf.</description>
               <node>
                  <name>#</name>
                  <attribute><name>takesValue</name></attribute>
                  <attribute><name>valueClass</name><value>textClass</value></attribute>
               </node>
            </node>
         </node>
         <node>
            <name>ZQ-UPPER</name>
            <description>Generated upper.</description>
         </node>
         <node>
            <name>Zq-level</name>
            <description>Generated node that declares extensionAllowed itself and takes a value.</description>
            <attribute><name>extensionAllowed</name></attribute>
            <node>
               <name>#</name>
               <attribute><name>takesValue</name></attribute>
               <attribute><name>valueClass</name><value>textClass</value></attribute>
            </node>
         </node>
         <node>
            <name>Zq-quantity</name>
            <description>Generated node that takes a value and also has named children.</description>
            <node>
               <name>#</name>
               <attribute><name>takesValue</name></attribute>
               <attribute><name>valueClass</name><value>textClass</value></attribute>
            </node>
            <node>
               <name>Zq-big-quantity</name>
               <description>Generated child beside a placeholder.</description>
               <node>
                  <name>Zq-measured</name>
                  <description>Generated grandchild taking a value.</description>
                  <node>
                     <name>#</name>
                     <attribute><name>takesValue</name></attribute>
                     <attribute><name>valueClass</name><value>textClass</value></attribute>
                  </node>
               </node>
            </node>
         </node>
      </node>
"""
    marker = "   </schema>"
    assert marker in text
    return text.replace(marker, new_nodes + marker, 1)


def build_configs(ctx):
    from hed.schema import load_schema, load_schema_version, from_string
    files = core.bundled_files()
    if not ctx.thorough:
        files = [f for f in files if f in ("HED8.3.0.xml", "HED8.0.0.xml", "HED_score_2.0.0.xml",
                                           "HED_testlib_3.0.0.xml", "HED_score_1.0.0.xml")]
    cfgs = []
    for f in files:
        p = os.path.join(core.SCHEMA_DATA, f)
        m = schema_model.load(p)
        cfgs.append((f, load_schema(p), m, ""))
        cfgs.append((f + "@tl:", load_schema(p, schema_namespace="tl:"), m, "tl:"))
        if f == files[0]:
            # a prefix written with capitals is the prefix as written
            cfgs.append((f + "@Tl:", load_schema(p, schema_namespace="Tl:"), m, "Tl:"))
    # merged multi-library load (same standard partner)
    m1 = schema_model.load(os.path.join(core.SCHEMA_DATA, "HED_testlib_2.0.0.xml"))
    m2 = schema_model.load(os.path.join(core.SCHEMA_DATA, "HED_score_1.1.0.xml"))
    merged = MergedModel([m1, m2])
    cfgs.append(("merged:testlib_2.0.0,score_1.1.0", load_schema_version("testlib_2.0.0,score_1.1.0"), merged, ""))
    cfgs.append(("merged:ml:testlib_2.0.0,score_1.1.0", load_schema_version("ml:testlib_2.0.0,score_1.1.0"),
                 merged, "ml:"))
    gtxt = generated_schema_text()
    cfgs.append(("generated:8.3.0+nodes", from_string(gtxt, ".xml"), schema_model.load(text=gtxt), ""))
    return cfgs


class MergedModel:
    """Union of models that share a standard partner (by long name)."""

    def __init__(self, models):
        self.tags = []
        seen = set()
        self.dup_short = set()
        shorts = {}
        for m in models:
            for t in m.tags:
                k = t.long.casefold()
                if k in seen:
                    continue
                seen.add(k)
                self.tags.append(t)
                s = t.name.casefold()
                if s in shorts and shorts[s] != k:
                    self.dup_short.add(s)
                shorts[s] = k
        self.models = models


def spellings(tag):
    terms = tag.terms()
    return ["/".join(terms[k:]) for k in range(len(terms))]


def suffixes(tag):
    out = [""]
    if tag.value_child is not None:
        out += VALUES
        # a value that repeats a term of the node's own path (nothing but the trailing suffix is the value)
        out.append("/" + tag.name)
        if len(tag.terms()) > 1:
            out.append("/" + tag.terms()[-2][:3])
    elif tag.has("extensionAllowed"):
        out.append(EXT)
    return out


def check_tag(rec, label, schema, tag, ns, HedTag, HedString):
    long_c, short_c = tag.long, tag.name
    for sp in spellings(tag):
        for cv in case_variants(sp):
            for suf in suffixes(tag):
                text = ns + cv + suf
                rec.n("evaluations")
                rec.n("transitions", 4)
                if cv != short_c:
                    rec.n("distinct_nontrivial")
                try:
                    t = HedTag(text, schema)
                    got = (t.tag_exists_in_schema(), t.long_tag, t.short_tag, t.base_tag, t.short_base_tag,
                           t.extension, t.org_base_tag)
                    entry_long = t._schema_entry.long_tag_name if t._schema_entry else None
                    # a tag written with a value is the node's '#' child (the entry that carries the value's classes)
                    if entry_long == long_c and tag.value_child is not None and suf and \
                            (t._schema_entry.name != long_c + "/#" or not t.is_takes_value_tag()):
                        entry_long = t._schema_entry.name + " (not the value-taking child)"
                except Exception as e:
                    rec.violation("C03:raises:" + type(e).__name__, config=label, text=text, error=repr(e)[:200])
                    continue
                want = (True, ns + long_c + suf, ns + short_c + suf, long_c, short_c, suf[1:], ns + cv)
                if got != want or entry_long != long_c:
                    which = [n for n, g, w in zip(("exists", "long_tag", "short_tag", "base_tag", "short_base_tag",
                                                   "extension", "org_base_tag"), got, want) if g != w]
                    if entry_long != long_c:
                        which.append("node")
                    rec.violation("C03:identify:" + "+".join(which), config=label, text=text, want=want, got=got,
                                  node=entry_long)
                    rec.outcome("identify-mismatch")
                    continue
                rec.outcome("ok" + (":ext" if suf == EXT else ":val" if suf else ""))
                # conversions: mutually inverse, idempotent, same node
                try:
                    lg, sh = t.long_tag, t.short_tag
                    tl, ts = HedTag(lg, schema), HedTag(sh, schema)
                    ok = (tl.long_tag == lg and tl.short_tag == sh and ts.long_tag == lg and ts.short_tag == sh
                          and tl._schema_entry is t._schema_entry and ts._schema_entry is t._schema_entry)
                    hs = HedString(text, schema)
                    ok = ok and hs.get_as_long() == lg and hs.get_as_short() == sh
                    if ok:
                        ok = (HedString(lg, schema).get_as_short() == sh and HedString(sh, schema).get_as_long() == lg
                              and HedString(lg, schema).get_as_long() == lg and HedString(sh, schema).get_as_short() == sh)
                except Exception as e:
                    rec.violation("C03:raises-convert:" + type(e).__name__, config=label, text=text, error=repr(e)[:200])
                    continue
                if not ok:
                    rec.violation("C03:conversion-not-inverse", config=label, text=text, long=lg, short=sh)


def worker(rec, shard, nshards, cfgs, seed):
    from hed.models.hed_tag import HedTag
    from hed.models.hed_string import HedString
    items = [(ci, ti) for ci, c in enumerate(cfgs) for ti in range(len(c[2].tags))]
    for idx in core.shard_order(len(items), shard, nshards, seed):
        ci, ti = items[idx]
        label, schema, model, ns = cfgs[ci]
        tag = model.tags[ti]
        if tag.name.casefold() in model.dup_short:
            rec.n("excluded_duplicate_short")
            continue
        rec.state((label, tag.long))
        check_tag(rec, label, schema, tag, ns, HedTag, HedString)
        if idx % 4001 == 7:
            rec.sample({"config": label, "node": tag.long, "spellings": spellings(tag)[:3],
                        "suffixes": suffixes(tag)})


def bulk_check(ctx, cfgs):
    """The bulk interface (df_util.convert_to_form) must equal the per-tag answers."""
    import pandas as pd
    from hed.models import df_util
    from hed.models.hed_tag import HedTag as HedTagCls
    rec = ctx.rec
    for label, schema, model, ns in cfgs:
        if label.endswith("@tl:") and not ctx.thorough:
            continue
        tags = [t for t in model.tags if t.name.casefold() not in model.dup_short]
        short = [ns + t.name + (VALUES[0] if t.value_child is not None else "") for t in tags]
        long_ = [ns + t.long + (VALUES[0] if t.value_child is not None else "") for t in tags]
        mixed = [ns + spellings(t)[len(spellings(t)) // 2].swapcase() + (VALUES[0] if t.value_child is not None else "")
                 for t in tags]
        for src_name, src in (("short", short), ("long", long_), ("mixed", mixed)):
            for form, want in (("long_tag", long_), ("short_tag", short)):
                s = pd.Series(list(src), dtype=str)
                try:
                    df_util.convert_to_form(s, schema, form)
                    got = list(s)
                except Exception as e:
                    rec.violation("C03:bulk-raises:" + type(e).__name__, config=label, form=form, error=repr(e)[:200])
                    continue
                rec.n("evaluations", len(src))
                rec.n("transitions", len(src))
                bad = [(a, b, c) for a, b, c in zip(src, got, want) if b != c]
                if bad:
                    rec.violation("C03:bulk-differs:" + form, config=label, src=src_name, first=bad[0], count=len(bad))
                rec.outcome("bulk-" + ("ok" if not bad else "diff"))
        # cells of one call that differ only in the letter case of a value / extension / unknown tag keep their own case
        pairs = []
        for t in tags:
            if t.value_child is not None:
                pairs += [ns + t.name + "/AbC d_3", ns + t.name + "/abc D_3", ns + t.long + "/ABC d_3"]
            elif t.has("extensionAllowed") and len(pairs) < 400:
                pairs += [ns + t.name + "/Zzq-Ext", ns + t.name + "/zzq-ext"]
            if len(pairs) >= 600:
                break
        pairs += ["Zzqunknown", "zzqUNKNOWN"]
        for form in ("long_tag", "short_tag"):
            s2 = pd.Series(list(pairs), dtype=str)
            df2 = pd.DataFrame({"a": list(pairs), "b": list(reversed(pairs))}, dtype=str)
            try:
                df_util.convert_to_form(s2, schema, form)
                df_util.convert_to_form(df2, schema, form, ["a", "b"])
            except Exception as e:
                rec.violation("C03:bulk-raises:" + type(e).__name__, config=label, form=form, error=repr(e)[:200])
                continue
            want = [str(getattr(HedTagCls(x, schema), form)) for x in pairs]
            rec.n("evaluations", 3 * len(pairs))
            rec.n("transitions", 3 * len(pairs))
            for name, got in (("series", list(s2)), ("frame-a", list(df2["a"])), ("frame-b", list(reversed(list(df2["b"]))))):
                bad = [(a, b, c) for a, b, c in zip(pairs, got, want) if b != c]
                if bad:
                    rec.violation("C03:bulk-case-sibling-cells-differ:" + form, config=label, where=name, first=bad[0],
                                  count=len(bad))
        # group of tags in one cell
        cell = ",".join(mixed[:7]) + ",(" + ",".join(mixed[7:12]) + ")"
        df = pd.DataFrame({"HED": [cell, cell], "other": ["x", "y"]})
        df_util.convert_to_form(df, schema, "long_tag", ["HED"])
        want_cell = ",".join(long_[:7]) + ",(" + ",".join(long_[7:12]) + ")"
        if df["HED"][0] != want_cell or list(df["other"]) != ["x", "y"]:
            rec.violation("C03:bulk-cell-differs", config=label, got=df["HED"][0][:300], want=want_cell[:300])


# ---- E2: operation histories on one live tag object ------------------------------------------------------------
HIST_SCHEMAS = ("8.2.0", "8.3.0")
HIST_OPS = ["long", "short", "val:0", "val:1", "ext:Xy1", "ext:#", "rp:7", "copy"]


def history_subjects():
    """(short name, start suffix) of tags present in both schemas: one that moved between the versions, a value-taking
    one, an extension-allowed one, a plain one.  Ground truth: the two XML models."""
    ma, mb = (schema_model.load(os.path.join(core.SCHEMA_DATA, f"HED{v}.xml")) for v in HIST_SCHEMAS)
    both = [t for t in ma.tags if t.name.casefold() in mb.by_short and t.name.casefold() not in ma.dup_short
            and t.name.casefold() not in mb.dup_short]
    moved = [t for t in both if mb.by_short[t.name.casefold()].long != t.long]
    same = [t for t in both if mb.by_short[t.name.casefold()].long == t.long]
    subj = []
    if moved:
        subj.append((moved[0].name, ""))
        mv = [t for t in moved if t.value_child is not None]
        if mv:
            subj.append((mv[0].name, "/#"))
        deep = sorted(moved, key=lambda t: -len(t.terms()))[0]
        subj.append((deep.name, "/Zzqext-1"))
    val = [t for t in same if t.value_child is not None and len(t.terms()) >= 2]
    subj.append((val[0].name, "/#"))
    subj.append((val[-1].name, "/3 #"))
    plain = [t for t in same if t.value_child is None and len(t.terms()) >= 3]
    subj.append((plain[0].name, ""))
    subj.append((plain[len(plain) // 2].name, "/Zzqext-1"))
    return (ma, mb), subj


def history_expect(model, name, ext):
    node = model.by_short[name.casefold()]
    return {"short_tag": node.name + ext, "long_tag": node.long + ext, "base_tag": node.long, "short_base_tag": node.name,
            "extension": ext[1:], "node": node.long}


def history_observe(tag):
    return {"short_tag": tag.short_tag, "long_tag": tag.long_tag, "base_tag": tag.base_tag,
            "short_base_tag": tag.short_base_tag, "extension": tag.extension,
            "node": tag._schema_entry.long_tag_name if tag._schema_entry else None}


def run_history(env, start_schema, spelling, name, suffix, ops):
    """Replay one history on a fresh real object next to the reference (schema index, extension).  Returns a list of
    (fingerprint suffix, detail) disagreements."""
    from hed.models.hed_string import HedString
    models, schemas, validators = env
    node = models[start_schema].by_short[name.casefold()]
    text = {"short": node.name, "long": node.long, "lower": node.name.lower()}[spelling] + suffix
    hs = HedString(text, schemas[start_schema])
    tag = hs.get_all_tags()[0]
    cur, ext = start_schema, suffix
    kept = []
    out = []
    for k, op in enumerate(ops):
        if op == "long":
            got, want = hs.get_as_long(), history_expect(models[cur], name, ext)["long_tag"]
            if got != want:
                out.append(("read-long", {"step": k, "got": got, "want": want}))
        elif op == "short":
            got, want = hs.get_as_short(), history_expect(models[cur], name, ext)["short_tag"]
            if got != want:
                out.append(("read-short", {"step": k, "got": got, "want": want}))
        elif op.startswith("val:"):
            cur = int(op[4:])
            validators[cur].validate(hs, allow_placeholders=True)
        elif op.startswith("ext:"):
            tag.extension = op[4:]
            ext = "/" + op[4:]
        elif op.startswith("rp:"):
            tag.replace_placeholder(op[3:])
            ext = ext.replace("#", op[3:])
        elif op == "copy":
            kept.append((hs, tag, cur, ext))
            hs = hs.copy()
            tag = hs.get_all_tags()[0]
    for who, (h, t, c, e) in [("final", (hs, tag, cur, ext))] + [("copied-from", x) for x in kept]:
        want = history_expect(models[c], name, e)
        got = history_observe(t)
        bad = sorted(k for k in want if want[k] != got[k])
        if bad:
            out.append((who + ":" + "+".join(bad), {"got": got, "want": want}))
            continue
        if h.get_as_long() != want["long_tag"] or h.get_as_short() != want["short_tag"]:
            out.append((who + ":string-forms", {"long": h.get_as_long(), "short": h.get_as_short(), "want": want}))
        fresh = HedString(got["short_tag"], schemas[c]).get_all_tags()[0]
        if fresh.long_tag != got["long_tag"] or HedString(got["long_tag"], schemas[c]).get_as_short() != got["short_tag"]:
            out.append((who + ":long-of-short-differs", {"short": got["short_tag"], "long_of_short": fresh.long_tag,
                                                         "long": got["long_tag"]}))
    return out


def history_env():
    from hed.schema import load_schema_version
    from hed.validator.hed_validator import HedValidator
    models, subj = history_subjects()
    schemas = tuple(load_schema_version(v) for v in HIST_SCHEMAS)
    validators = tuple(HedValidator(s) for s in schemas)
    return (models, schemas, validators), subj


def worker_history(rec, shard, nshards, depth, seed):
    import itertools
    env, subj = history_env()
    hists = [ops for d in range(1, depth + 1) for ops in itertools.product(HIST_OPS, repeat=d)]
    starts = [(si, sp, name, suf) for name, suf in subj for si in (0, 1) for sp in ("short", "long", "lower")]
    total = len(hists) * len(starts)
    for idx in core.shard_order(total, shard, nshards, seed):
        ops = hists[idx % len(hists)]
        si, sp, name, suf = starts[idx // len(hists)]
        rec.n("evaluations")
        rec.n("transitions", len(ops))
        if any(not o.startswith(("long", "short")) for o in ops):
            rec.n("distinct_nontrivial")
        rec.state(("history", name, suf, tuple(sorted(set(o.split(":")[0] for o in ops)))))
        try:
            bad = run_history(env, si, sp, name, suf, ops)
        except Exception as e:
            rec.violation("C03:history:raises:" + type(e).__name__, start=[HIST_SCHEMAS[si], sp, name, suf], ops=list(ops),
                          error=repr(e)[:200])
            continue
        for what, detail in bad:
            rec.violation("C03:history:" + what.split(":")[0] + ":" + what.split(":")[-1].split("+")[0],
                          start=[HIST_SCHEMAS[si], sp, name, suf], ops=list(ops), what=what, **detail)
        rec.outcome("history-" + ("differs" if bad else "ok"))
        if idx % 30011 == 11:
            rec.sample({"history": list(ops), "start": [HIST_SCHEMAS[si], sp, name + suf]})


def respell_check(ctx):
    """The text of a live tag is replaced by another spelling of the same tag (letter case of the name and of the suffix):
    every form is that of a tag built from the new text."""
    from hed import load_schema_version
    from hed.models.hed_tag import HedTag
    rec = ctx.rec
    schema = load_schema_version("8.3.0")
    starts = ["Label/abc", "Item/Object/myExt", "Duration/3 ms", "Red", "Property/Informational-property/Label/Xy z",
              "Item/Zzq-ext/Deeper"]

    def spellings_of(text):
        return [text, text.upper(), text.lower(), text.swapcase(), text.title()]
    for start in starts:
        for first in spellings_of(start):
            for second in spellings_of(start):
                if first == second:
                    continue
                rec.n("evaluations")
                rec.n("transitions", 2)
                rec.n("distinct_nontrivial")
                rec.state(("respell", start))
                try:
                    t = HedTag(first, schema)
                    t.tag = second
                    got = history_observe(t)
                    want = history_observe(HedTag(second, schema))
                except Exception as e:
                    rec.violation("C03:respell:raises:" + type(e).__name__, first=first, second=second, error=repr(e)[:200])
                    continue
                if got != want:
                    which = "+".join(k for k in got if got[k] != want[k])
                    rec.violation("C03:respell:tag-text-replaced-forms-differ-from-a-fresh-tag:" + which, first=first,
                                  second=second, got=got, fresh=want)
    rec.outcome("respell")


def partner_history_check(ctx):
    """History across two schema objects of one process: a text is identified under the (cached) standard schema, where its
    last term is an extension; then a partnered library that makes that term a node is loaded from its unmerged form (the
    loader builds it on a copy of the cached standard schema); the same text under the library is the library's node."""
    from hed import load_schema_version
    from hed.schema import from_string
    from hed.models.hed_tag import HedTag
    rec = ctx.rec
    for libname, partner in (("testlib_2.0.0", "8.2.0"), ("testlib_3.0.0", "8.2.0")):
        try:
            std = load_schema_version(partner)
            merged_model = schema_model.load(os.path.join(core.SCHEMA_DATA, f"HED_{libname}.xml"))
            std_model = schema_model.load(os.path.join(core.SCHEMA_DATA, f"HED{partner}.xml"))
            unmerged = load_schema_version(libname).get_as_xml_string(save_merged=False)
            texts = []
            for t in merged_model.tags:
                if t.name.casefold() in std_model.by_short or t.parent is None or t.name.casefold() in merged_model.dup_short:
                    continue
                if t.parent.name.casefold() in std_model.by_short:
                    texts.append((f"{t.parent.name}/{t.name}", t))
                    texts.append((f"{t.parent.long}/{t.name}", t))
            before = [HedTag(text, std).short_tag for text, _ in texts]     # identified under the standard schema first
            lib = from_string(unmerged, ".xml")
            for (text, node), was in zip(texts, before):
                rec.n("evaluations")
                rec.n("transitions", 2)
                rec.n("distinct_nontrivial")
                tag = HedTag(text, lib)
                got = (tag.short_tag, tag.long_tag, tag.extension)
                if got != (node.name, node.long, ""):
                    rec.violation("C03:partner-history:library-node-identified-as-an-extension-of-its-parent", library=libname,
                                  text=text, under_standard_first=was, got=got, want=(node.name, node.long, ""))
        except Exception as e:
            rec.violation("C03:partner-history:raises:" + type(e).__name__, library=libname, error=repr(e)[:200])
    rec.outcome("partner-history")


def reidentify_check(ctx):
    """A string parsed under one schema version and validated under another has the forms a fresh parse under that other
    version has - also where text that is an extension in one version is a schema tag in the other."""
    from hed.models.hed_string import HedString
    rec = ctx.rec
    env, _ = history_env()
    models, schemas, validators = env
    ma, mb = models
    texts = []
    for t in mb.tags:                       # tags new in the later version, written below their parent
        if t.name.casefold() in ma.by_short or t.name.casefold() in mb.dup_short or t.parent is None:
            continue
        par = t.parent
        if par.name.casefold() in ma.by_short and par.name.casefold() not in ma.dup_short:
            texts.append(f"{par.name}/{t.name}")
            texts.append(f"{par.name}/{t.name}/Zzqext-1")
        if len(texts) >= 40:
            break
    for t in ma.tags:                       # and tags dropped or moved
        if t.name.casefold() not in mb.by_short and t.parent is not None and t.parent.name.casefold() in mb.by_short:
            texts.append(f"{t.parent.name}/{t.name}")
        if len(texts) >= 60:
            break
    for text in texts:
        for first in (0, 1):
            for hist in itertools.product((0, 1), repeat=2):
                rec.n("evaluations")
                rec.n("transitions", 3)
                rec.n("distinct_nontrivial")
                try:
                    hs = HedString(text, schemas[first])
                    cur = first
                    for k in hist:
                        validators[k].validate(hs, allow_placeholders=True)
                        cur = k
                    fresh = HedString(text, schemas[cur])
                    got = (hs.get_as_short(), hs.get_as_long())
                    want = (fresh.get_as_short(), fresh.get_as_long())
                except Exception as e:
                    rec.violation("C03:reidentify:raises:" + type(e).__name__, text=text, error=repr(e)[:200])
                    continue
                if got != want:
                    rec.violation("C03:reidentify:forms-differ-from-fresh-parse", text=text, parsed_under=HIST_SCHEMAS[first],
                                  validated_under=[HIST_SCHEMAS[k] for k in hist], got=got, fresh=want)
        rec.state(("reidentify", text))
    rec.outcome("reidentify")


def rebase_check(ctx, cfgs):
    """Setting the base of an identified tag to the name it already has changes nothing, with or without a namespace."""
    from hed.models.hed_tag import HedTag
    rec = ctx.rec
    for label, schema, model, ns in cfgs:
        tags = [t for t in model.tags if t.name.casefold() not in model.dup_short][::max(1, len(model.tags) // 60)]
        for t in tags:
            for suf in suffixes(t)[:2]:
                text = ns + t.name + suf
                rec.n("evaluations")
                rec.n("transitions", 2)
                rec.n("distinct_nontrivial")
                try:
                    tag = HedTag(text, schema)
                    before = (tag.short_tag, tag.long_tag, tag.base_tag, tag.extension, tag.tag_exists_in_schema())
                    tag.short_base_tag = t.name
                    after = (tag.short_tag, tag.long_tag, tag.base_tag, tag.extension, tag.tag_exists_in_schema())
                except Exception as e:
                    rec.violation("C03:rebase:raises:" + type(e).__name__, config=label, text=text, error=repr(e)[:200])
                    continue
                if after != before:
                    rec.violation("C03:rebase:same-base-changes-forms:" + ("prefixed" if ns else "plain"), config=label,
                                  text=text, before=before, after=after)
        rec.state(("rebase", label))
    rec.outcome("rebase")


def run(ctx):
    cfgs = build_configs(ctx)
    ctx.rec.notes["bounds"] = {"configs": [c[0] for c in cfgs], "tags_per_config": {c[0]: len(c[2].tags) for c in cfgs},
                               "case_variants": 4, "suffixes": ["", EXT] + VALUES}
    ctx.parallel(worker, cfgs, ctx.seed)
    bulk_check(ctx, cfgs)
    respell_check(ctx)
    partner_history_check(ctx)
    rebase_check(ctx, cfgs)
    depth = ctx.pick(3, 5)
    ctx.rec.notes["bounds"]["histories"] = {"schemas": HIST_SCHEMAS, "ops": HIST_OPS, "depth": depth,
                                            "subjects": history_subjects()[1], "start_spellings": 3}
    ctx.parallel(worker_history, depth, ctx.seed)
    # reidentify_check (text that is an extension in one version and a schema tag in the other) is not run: what a tag
    # object that was changed or identified before should keep on re-identification is not fixed by the statement, and the
    # two natural readings exclude each other (DESIGN 7a)
    ctx.rec.counts["states"] = len(ctx.rec.states)


def replay(ctx, case):
    from hed.models.hed_tag import HedTag
    from hed.models.hed_string import HedString
    cfgs = build_configs(ctx)
    rec = core.Rec()
    for label, schema, model, ns in cfgs:
        if label != case.get("config"):
            continue
        for tag in model.tags:
            text = case.get("text", "")
            if text and tag.name.casefold() in text.casefold():
                check_tag(rec, label, schema, tag, ns, HedTag, HedString)
    return [(fp, d) for fp, lst in rec.viol.items() for d in lst if d.get("text") == case.get("text")]
