"""C18 - backups restore byte-for-byte and are never half-valid.

E3 (crash enumeration): for every data tree / file selection / pre-existing-backup configuration the I/O history of
create_backup is recorded through the file-system seam; it is then re-run with a crash before *every* step and, at written
files, every torn-write pattern; after each crash a fresh BackupManager is constructed and judged.
E2 (histories): after a successful backup, breadth-first search over {modify, delete file, delete directory, remodel,
restore all, restore task} with the map path -> bytes as state, against a reference model.
"""
import itertools
import json
import os
import shutil

from mc import core, fsseam

ID = "C18"
LEVEL = "model_checking"
RULE = ("crash space: data trees of 1-3 files in 1-2 directories x every non-empty file selection x {no other backup, a valid "
        "backup of another name} x every step of create_backup's I/O history (makedirs, per-file makedirs, copy create / "
        "half / rest / stat, record open / each write / close) x torn patterns {nothing, half, all} at written files; "
        "history space: every sequence of <= d operations from {modify i, delete i, delete dir, remodel, restore all, restore "
        "task} after a backup of all files or of a subset.  state = (path -> bytes) of data and backup trees; transition = one "
        "operation or one crashed run on the real code; non-trivial = crash inside a copy or record write, or a history with "
        "a restore after a change")
ASSUMPTIONS = [
    "interruption = the process stops before a file-system step; a single interposed call is atomic; buffered written data "
    "reaches the disk as nothing, half or all (power-loss reordering of unsynced data is out of scope)",
    "a BackupManager that refuses to construct after a crash lists nothing, which the statement permits",
]

TSV = {
    "a": "onset\tduration\tcode\n1.0\t0.5\t1\n2.0\t0.5\t2\n",
    "b": "onset\tduration\tcode\n1.5\t0.25\t3\n",
    "c": "onset\tduration\tcode\n0.5\t1.0\t4\n3.0\t1.0\t5\n4.0\tn/a\t6\n",
}
FILES3 = [("sub-01/sub-01_task_go_events.tsv", "a"), ("sub-01/sub-01_task_stop_events.tsv", "b"),
          ("sub-02/EEG/sub-02_task_gonogo_events.tsv", "c")]    # capitals in a directory; a task whose name starts like 'go'


def make_tree(root, files):
    if os.path.exists(root):
        shutil.rmtree(root)
    for rel, key in files:
        p = os.path.join(root, rel)
        os.makedirs(os.path.dirname(p), exist_ok=True)
        with open(p, "w") as f:
            f.write(TSV[key])


def backup_state(bm_mod, data_root):
    """Construct a fresh manager; return ('refuses', exc name) or ('ok', {name: {key: bytes or None}})."""
    try:
        bm = bm_mod.BackupManager(data_root)
    except BaseException as e:
        return "refuses", type(e).__name__
    out = {}
    for name in list(bm.backups_dict):
        rec = bm.get_backup(name) or {}
        files = {}
        try:
            paths = bm.get_backup_files(name) if rec else []
        except Exception:
            paths = []
        for key, p in zip(rec.keys(), paths):
            try:
                with open(p, "rb") as f:
                    files[key] = f.read()
            except OSError:
                files[key] = None
        out[name] = files
    return "ok", out


def worker_crash(rec, shard, nshards, scratch, thorough, seed):
    from hed.tools.remodeling import backup_manager as bm_mod
    configs = []
    trees = [FILES3[:1], FILES3[:2], FILES3]
    for tree in trees:
        for r in range(1, len(tree) + 1):
            for sel in itertools.combinations(range(len(tree)), r):
                for other in (False, True):
                    configs.append((tree, sel, other))
    for ci in core.shard_order(len(configs), shard, nshards, seed):
        tree, sel, other = configs[ci]
        root = os.path.join(scratch, f"crash{shard}_{ci}")

        def setup():
            make_tree(root, tree)
            if other:
                bm_mod.BackupManager(root).create_backup([os.path.join(root, tree[0][0])], backup_name="earlier")

        file_list = lambda: [os.path.join(root, tree[i][0]) for i in sel]
        originals = {tree[i][0]: TSV[tree[i][1]].encode() for i in sel}
        # 1. record the I/O history without a crash
        setup()
        seam = fsseam.Seam()
        bm = bm_mod.BackupManager(root)
        with fsseam.Interpose(bm_mod, seam):
            ok = bm.create_backup(file_list(), backup_name="bk")
        nsteps = seam.count
        trace = list(seam.trace)
        state = backup_state(bm_mod, root)
        rec.n("evaluations")
        if not ok or state[0] != "ok" or "bk" not in state[1] or \
                {k: v for k, v in state[1]["bk"].items()} != {k: originals[k] for k in originals}:
            rec.violation("C18:uninterrupted-backup-wrong", tree=[t[0] for t in tree], selection=list(sel), state=repr(state)[:300])
            continue
        earlier_ref = state[1].get("earlier")
        rec.state(("crash-config", len(tree), sel, other))
        # 2. crash before every step, every torn pattern where a written file is open
        for k in range(nsteps):
            kind = trace[k][0]
            torn_variants = (0, 1, 2) if kind in ("write", "close") else (0,)
            for torn in torn_variants:
                setup()
                seam = fsseam.Seam(crash_at=k, torn=torn)
                bm = bm_mod.BackupManager(root)
                try:
                    with fsseam.Interpose(bm_mod, seam):
                        bm.create_backup(file_list(), backup_name="bk")
                    rec.violation("C18:harness:crash-did-not-fire", step=k)
                    continue
                except fsseam.Crash:
                    pass
                rec.n("evaluations")
                rec.n("transitions")
                if kind.startswith("copy:") or kind in ("write", "close"):
                    rec.n("distinct_nontrivial")
                verdict, listed = backup_state(bm_mod, root)
                where = {"tree": [t[0] for t in tree], "selection": list(sel), "other_backup": other,
                         "crash_before_step": k, "step": f"{trace[k][0]} {os.path.relpath(trace[k][1], root) if trace[k][1] else ''}",
                         "torn": torn, "history": [t[0] for t in trace]}
                if verdict == "refuses":
                    rec.outcome("refuses:" + listed)
                    continue
                if "bk" in listed:
                    bad = {k2: (None if v is None else len(v)) for k2, v in listed["bk"].items()
                           if originals.get(k2) != v}
                    missing = [k2 for k2 in originals if k2 not in listed["bk"]]
                    if bad:
                        rec.violation(f"C18:half-valid-backup-listed:crash-at-{kind}", bad_files=bad, **where)
                        rec.outcome("half-valid-listed")
                        continue
                    rec.outcome("listed-complete" + (":partial-record" if missing else ""))
                else:
                    rec.outcome("not-listed")
                if other and listed.get("earlier") != earlier_ref:
                    rec.violation("C18:earlier-backup-damaged-by-interrupted-backup", **where)
        if ci % 5 == 0:
            rec.sample({"tree": [t[0] for t in tree], "selection": list(sel), "other_backup": other,
                        "io_history": [t[0] for t in trace]})
        # 3. an existing backup of the same name is never overwritten
        setup()
        bm = bm_mod.BackupManager(root)
        bm.create_backup(file_list(), backup_name="bk")
        before = fsseam.tree_bytes(os.path.join(root, "derivatives"))
        with open(file_list()[0], "a") as f:
            f.write("9.0\t9.0\t9\n")
        for mgr in (bm, bm_mod.BackupManager(root)):
            res = mgr.create_backup(file_list(), backup_name="bk")
            rec.n("evaluations")
            if res is not False or fsseam.tree_bytes(os.path.join(root, "derivatives")) != before:
                rec.violation("C18:existing-backup-overwritten", tree=[t[0] for t in tree], selection=list(sel), result=res)
        shutil.rmtree(root, ignore_errors=True)


# ---- histories --------------------------------------------------------------------------------------------------------

MODEL_OPS = [{"operation": "rename_columns", "description": "r",
              "parameters": {"column_mapping": {"code": "kode"}, "ignore_missing": True}}]


def remodeled(text):
    return text.replace("\tcode\n", "\tkode\n", 1)


def task_of(rel):
    """The task of a data file: the text after 'task_' up to the next '_' or '.' of its name."""
    import re
    m = re.search(r"task_([^_.]+)", os.path.basename(rel))
    return m.group(1) if m else None


def hist_ops(nfiles, with_remodel):
    ops = [("modify", i) for i in range(nfiles)] + [("delete", i) for i in range(nfiles)] + [("deldir",), ("deldir2",)]
    ops += [("restore", None), ("restore", "go"), ("restore", "stop")]
    # a second backup request under the default name, given explicitly / omitted / empty: refused, nothing changes
    ops += [("backup", "default_back"), ("backup", None), ("backup", "")]
    # the same request from a manager object that was created before the backup existed (another tool instance)
    ops += [("stale-backup", "default_back")]
    # a name that only resolves to the existing backup
    ops += [("backup", "x/../default_back")]
    if with_remodel:
        # remodel is run on all tasks: run_remodel's task filter keys on BIDS 'task-<name>' entities while
        # BackupManager.get_task keys on 'task_<name>', so a task-filtered remodel has no common file naming (observation)
        ops += [("remodel", None)]
        # with a task filter: the restore step that precedes the run goes by 'task_<name>' (only those files are put back),
        # the run itself by 'task-<name>' (no file of this tree carries that form, so nothing is remodeled)
        ops += [("remodel", "go")]
    # an edit that keeps the file's length and modification time
    ops += [("modify-keep", 0), ("modify-keep", 2)]
    return ops


def run_history(rec, bm_mod, cli, root, selection, hist):
    make_tree(root, FILES3)
    files = [os.path.join(root, FILES3[i][0]) for i in selection]
    stale = bm_mod.BackupManager(root)
    bm_mod.BackupManager(root).create_backup(files, backup_name="default_back")
    backup_ref = fsseam.tree_bytes(os.path.join(root, "derivatives", "remodel", "backups"))
    model = {rel: TSV[key] for rel, key in FILES3}
    backed = {FILES3[i][0]: TSV[FILES3[i][1]] for i in selection}
    model_path = os.path.join(root, "..", os.path.basename(root) + "_model.json")
    with open(model_path, "w") as f:
        json.dump(MODEL_OPS, f)
    for step, op in enumerate(hist):
        where = {"selection": list(selection), "history": [list(o) for o in hist[:step + 1]]}
        try:
            if op[0] == "modify":
                rel = FILES3[op[1]][0]
                p = os.path.join(root, rel)
                os.makedirs(os.path.dirname(p), exist_ok=True)
                new = model.get(rel, "") + "7.0\t7.0\t7\n"
                with open(p, "w") as f:
                    f.write(new)
                model[rel] = new
            elif op[0] == "modify-keep":
                rel = FILES3[op[1]][0]
                p = os.path.join(root, rel)
                if rel in model:
                    st_ = os.stat(p)
                    new = model[rel].replace("0", "8", 1) if "0" in model[rel] else model[rel].replace("8", "0", 1)
                    with open(p, "w") as f:
                        f.write(new)
                    os.utime(p, ns=(st_.st_atime_ns, st_.st_mtime_ns))
                    model[rel] = new
            elif op[0] == "delete":
                rel = FILES3[op[1]][0]
                p = os.path.join(root, rel)
                if os.path.exists(p):
                    os.remove(p)
                model.pop(rel, None)
            elif op[0] == "deldir":
                shutil.rmtree(os.path.join(root, "sub-01"), ignore_errors=True)
                for rel in [r for r in model if r.startswith("sub-01/")]:
                    model.pop(rel)
            elif op[0] == "deldir2":
                # two directory levels at once (sub-02/EEG/...)
                shutil.rmtree(os.path.join(root, "sub-02"), ignore_errors=True)
                for rel in [r for r in model if r.startswith("sub-02/")]:
                    model.pop(rel)
            elif op[0] in ("backup", "stale-backup"):
                present = [os.path.join(root, r) for r in sorted(model)]
                mgr = stale if op[0] == "stale-backup" else bm_mod.BackupManager(root)
                try:
                    made = mgr.create_backup(present, backup_name=op[1])
                except Exception as e:
                    if type(e).__name__ != "HedFileError":
                        raise
                    made = False            # refused with the library's own error: also a refusal
                if made:
                    rec.violation("C18:history:backup:existing-backup-name-not-refused", name=repr(op[1]), **where)
                    return
            elif op[0] == "restore":
                args = [root] + (["-t", op[1]] if op[1] else [])
                cli["restore"].main(args)
                for rel, content in backed.items():
                    if op[1] is None or task_of(rel) == op[1]:
                        model[rel] = content
            elif op[0] == "remodel":
                args = [root, model_path, "-x", "derivatives", "-ns"] + (["-t", op[1]] if op[1] else [])
                # (a task-filtered run works on no file of this tree, so no file lacks its backed-up original)
                uncovered = sorted(r for r in model if r not in backed) if op[1] is None else []
                if uncovered:
                    # a data file without a backed-up original: the run is refused and nothing is touched (it could not
                    # "start from the backed-up originals")
                    refused = False
                    try:
                        cli["remodel"].main(args)
                    except (Exception, SystemExit):
                        refused = True
                    if not refused:
                        rec.violation("C18:history:remodel:ran-on-files-without-backed-up-original", uncovered=uncovered, **where)
                        return
                    # the refused run may have stopped half way: a file with a backed-up original is as before, or its
                    # original, or the remodeled original; a file without one is untouched
                    now = {k: v.decode() for k, v in fsseam.tree_bytes(root).items() if not k.startswith("derivatives")}
                    for rel in set(now) | set(model):
                        allowed = {model.get(rel)}
                        if rel in backed:
                            allowed |= {backed[rel], remodeled(backed[rel])}
                        if now.get(rel) not in allowed:
                            rec.violation("C18:history:remodel:refused-run-left-unexpected-content:" +
                                          ("backed-up" if rel in backed else "not-backed-up"), file=rel, content=now.get(rel),
                                          **where)
                            return
                    model = {k: v for k, v in now.items()}
                else:
                    cli["remodel"].main(args)
                    for rel, content in backed.items():
                        if op[1] is None:
                            model[rel] = remodeled(content)
                        elif task_of(rel) == op[1]:
                            model[rel] = content
        except BaseException as e:
            rec.violation(f"C18:history:{op[0]}-raises:{type(e).__name__}", error=repr(e)[:300], **where)
            return
        rec.n("transitions")
        actual = {k: v.decode() for k, v in fsseam.tree_bytes(root).items() if not k.startswith("derivatives")}
        rec.state(tuple(sorted((k, hash(v)) for k, v in actual.items())))
        if actual != model:
            diff = sorted(k for k in set(actual) | set(model) if actual.get(k) != model.get(k))
            rec.violation(f"C18:history:{op[0]}{'-task' if len(op) > 1 and op[1] and op[0] != 'modify' and op[0] != 'delete' else ''}"
                          f":data-files-differ-from-model", differing=diff,
                          actual={k: actual.get(k) for k in diff}, expected={k: model.get(k) for k in diff}, **where)
            return
        if fsseam.tree_bytes(os.path.join(root, "derivatives", "remodel", "backups")) != backup_ref:
            rec.violation(f"C18:history:{op[0]}:backup-copies-changed", **where)
            return
    rec.n("evaluations")
    if any(o[0] in ("restore", "remodel") for o in hist[1:]):
        rec.n("distinct_nontrivial")
    rec.outcome("history-ok")


def lost_copy_check(rec, bm_mod, root):
    """A complete backup from which a recorded copy (or its directory) has vanished: a new manager refuses or lists the
    backup with every recorded file present - never with one missing."""
    for selection in ((0, 1, 2), (0, 2)):
        for lose in selection:
            for whole_dir in (False, True):
                make_tree(root, FILES3)
                files = [os.path.join(root, FILES3[i][0]) for i in selection]
                bm = bm_mod.BackupManager(root)
                bm.create_backup(files, backup_name="default_back")
                victim = bm.get_backup_path("default_back", os.path.join(root, FILES3[lose][0]))
                if whole_dir:
                    shutil.rmtree(os.path.dirname(victim))
                else:
                    os.remove(victim)
                rec.n("evaluations")
                rec.n("transitions", 2)
                rec.n("distinct_nontrivial")
                kind, state = backup_state(bm_mod, root)
                if kind == "ok":
                    for name, fs in state.items():
                        missing = [k for k, v in fs.items() if v is None]
                        recorded = len(fs)
                        if missing or recorded < len(selection):
                            rec.violation("C18:lost-copy:backup-listed-with-recorded-file-missing", selection=list(selection),
                                          lost=FILES3[lose][0], whole_directory=whole_dir, missing=missing)
                rec.outcome("lost-copy:" + kind)


FILES_DOT = [("sub-01/sub-01_task_go_events.tsv", "a"), (".sourcedata/sub-01/sub-01_task_go_events.tsv", "b"),
             (".pilot_events.tsv", "c"), ("pilot_events.tsv", "b"), ("sourcedata/sub-01/sub-01_task_go_events.tsv", "c")]
NAMED_OPS = [("backup", "first"), ("backup", "second"), ("modify", 0), ("modify", 1), ("modify", 2), ("restore", "first"),
             ("restore", "second")]


def named_backups_check(rec, bm_mod, root, depth):
    """E2: backups under two names, data edits and restores in every order (to depth) - through one manager object and
    through a new manager per step - on a tree whose paths include leading dots and names that differ only by that dot.
    A restore returns exactly the files as they were when that backup was made; a backup keeps its bytes whatever is done
    later; an existing name is refused."""
    def tree():
        return {k: v.decode() for k, v in fsseam.tree_bytes(root).items() if not k.startswith("derivatives")}
    for one_manager in (True, False):
        for hist in (h for d in range(2, depth + 1) for h in itertools.product(NAMED_OPS, repeat=d)):
            if hist[0][0] != "backup" or not any(o[0] == "restore" for o in hist) or \
                    sum(1 for o in hist if o[0] == "backup") > 2:
                continue
            make_tree(root, FILES_DOT)
            files = [os.path.join(root, rel) for rel, _ in FILES_DOT]
            model = tree()
            snaps = {}
            mgr = bm_mod.BackupManager(root)
            rec.n("evaluations")
            rec.n("distinct_nontrivial")
            rec.state(("named", one_manager, tuple(sorted(set(hist)))))
            for step, op in enumerate(hist):
                where = {"one_manager_object": one_manager, "history": [list(o) for o in hist[:step + 1]]}
                if not one_manager:
                    mgr = bm_mod.BackupManager(root)
                rec.n("transitions")
                try:
                    if op[0] == "modify":
                        rel = FILES_DOT[op[1]][0]
                        model[rel] = model[rel] + "9.0\t9.0\t9\n"
                        with open(os.path.join(root, rel), "w") as f:
                            f.write(model[rel])
                    elif op[0] == "backup":
                        try:
                            made = mgr.create_backup(files, backup_name=op[1])
                        except Exception as e:
                            if type(e).__name__ != "HedFileError":
                                raise
                            made = False
                        if bool(made) != (op[1] not in snaps):
                            rec.violation("C18:named:backup-request-answered-wrongly", name=op[1], made=bool(made),
                                          existing=sorted(snaps), **where)
                            break
                        snaps.setdefault(op[1], dict(model))
                    else:
                        if op[1] not in snaps:
                            try:
                                mgr.restore_backup(op[1])
                                rec.violation("C18:named:restore-of-a-missing-backup-did-not-fail", name=op[1], **where)
                                break
                            except Exception:
                                continue
                        mgr.restore_backup(op[1])
                        model = dict(snaps[op[1]])
                except BaseException as e:
                    rec.violation(f"C18:named:{op[0]}-raises:{type(e).__name__}", error=repr(e)[:300], **where)
                    break
                if tree() != model:
                    actual = tree()
                    diff = sorted(k for k in set(actual) | set(model) if actual.get(k) != model.get(k))
                    rec.violation(f"C18:named:{op[0]}:data-files-differ-from-model", differing=diff,
                                  actual={k: actual.get(k) for k in diff}, expected={k: model.get(k) for k in diff}, **where)
                    break
                kind, state = backup_state(bm_mod, root)
                bad = None
                if kind != "ok" or set(state) != set(snaps):
                    bad = f"listed {sorted(state) if kind == 'ok' else kind}, made {sorted(snaps)}"
                else:
                    for name, snap in snaps.items():
                        got = sorted(v.decode() if v is not None else None for v in state[name].values())
                        if got != sorted(snap.values()):
                            bad = f"backup {name!r} does not hold the files as they were when it was made"
                if bad:
                    rec.violation(f"C18:named:{op[0]}:backups-differ-from-model", detail=bad, **where)
                    break
            rec.outcome("named-history")


def bids_named_check(rec, bm_mod, run_remodel, root):
    """Files named the BIDS way (task-go): `remodel -t go` works on them from their backed-up originals, also when the
    operations change nothing in a file - an edit made after the backup does not survive the run - and leaves the files of
    other tasks alone.  Histories: every subset of {edit go file, edit stop file, run once more}."""
    files = {"sub-01/sub-01_task-go_events.tsv": "onset\tduration\tkind\n1.0\t0.5\ta\n",            # no 'code': a no-op
             "sub-01/sub-01_task-go_run-2_events.tsv": TSV["a"],
             "sub-01/sub-01_task-stop_events.tsv": TSV["b"]}
    model_path = os.path.join(root, "..", os.path.basename(root) + "_model.json")
    for edits in itertools.product((False, True), repeat=3):
        for twice in (False, True):
            if os.path.exists(root):
                shutil.rmtree(root)
            for rel, text in files.items():
                os.makedirs(os.path.dirname(os.path.join(root, rel)), exist_ok=True)
                with open(os.path.join(root, rel), "w") as f:
                    f.write(text)
            with open(model_path, "w") as f:
                json.dump(MODEL_OPS, f)
            rec.n("evaluations")
            rec.n("transitions", 2 + sum(edits) + twice)
            rec.n("distinct_nontrivial")
            where = {"edited_after_backup": [r for r, e in zip(files, edits) if e], "run_twice": twice}
            try:
                bm_mod.BackupManager(root).create_backup([os.path.join(root, r) for r in files], backup_name="default_back")
                expected = {}
                for (rel, text), edit in zip(files.items(), edits):
                    if edit:
                        with open(os.path.join(root, rel), "a") as f:
                            f.write("9.0\t9.0\t9\n")
                    expected[rel] = remodeled(text) if "task-go" in rel else text + ("9.0\t9.0\t9\n" if edit else "")
                for _ in range(2 if twice else 1):
                    run_remodel.main([root, model_path, "-x", "derivatives", "-ns", "-t", "go"])
            except BaseException as e:
                rec.violation(f"C18:bids-names:raises:{type(e).__name__}", error=repr(e)[:300], **where)
                continue
            actual = {k: v.decode() for k, v in fsseam.tree_bytes(root).items() if not k.startswith("derivatives")}
            if actual != expected:
                diff = sorted(k for k in set(actual) | set(expected) if actual.get(k) != expected.get(k))
                rec.violation("C18:bids-names:task-filtered-remodel:data-files-differ-from-model", differing=diff,
                              actual={k: actual.get(k) for k in diff}, expected={k: expected.get(k) for k in diff}, **where)
            rec.outcome("bids-names")


def worker_hist(rec, shard, nshards, scratch, depth, seed):
    import contextlib
    import io
    from hed.tools.remodeling import backup_manager as bm_mod
    from hed.tools.remodeling.cli import run_remodel, run_remodel_restore
    cli = {"remodel": run_remodel, "restore": run_remodel_restore}
    cases = []
    for selection, with_remodel in (((0, 1, 2), True), ((0, 2), True), ((1,), False)):
        ops = hist_ops(3, with_remodel)
        for d in range(1, depth + 1):
            if d < depth and depth > 1:
                continue
            for hist in itertools.product(ops, repeat=d):
                cases.append((selection, hist))
    root = os.path.join(scratch, f"hist{shard}")
    if shard == 0:
        with contextlib.redirect_stdout(io.StringIO()):
            lost_copy_check(rec, bm_mod, os.path.join(scratch, "lost"))
    if shard == 1 % nshards:
        with contextlib.redirect_stdout(io.StringIO()):
            named_backups_check(rec, bm_mod, os.path.join(scratch, "named"), 4 if depth > 3 else 3)
    if shard == 2 % nshards:
        with contextlib.redirect_stdout(io.StringIO()):
            bids_named_check(rec, bm_mod, run_remodel, os.path.join(scratch, "bidsnames"))
    # the task filter looks at file names only: a data root whose own name mentions a task must behave the same
    root_task = os.path.join(scratch, f"h{shard}_task_stop_pilot")
    for ci in core.shard_order(len(cases), shard, nshards, seed):
        selection, hist = cases[ci]
        with contextlib.redirect_stdout(io.StringIO()):
            run_history(rec, bm_mod, cli, root, selection, hist)
            if any(o[0] == "restore" and o[1] for o in hist):
                run_history(rec, bm_mod, cli, root_task, selection, hist)
        if ci % 1501 == 0:
            rec.sample({"selection": list(selection), "history": [list(o) for o in hist]})
    shutil.rmtree(root, ignore_errors=True)
    shutil.rmtree(root_task, ignore_errors=True)


def run(ctx):
    depth = ctx.pick(3, 4)
    scratch = ctx.subdir("c18")
    ctx.rec.notes["bounds"] = {"history_depth": depth, "files": [f[0] for f in FILES3],
                               "crash_configs": "3 trees x all selections x {no other backup, other backup}",
                               "torn_patterns": ["nothing", "half", "all"]}
    ctx.parallel(worker_crash, scratch, ctx.thorough, ctx.seed)
    ctx.parallel(worker_hist, scratch, depth, ctx.seed)
    ctx.rec.counts["states"] = len(ctx.rec.states)


def replay(ctx, case):
    import contextlib
    import io
    from hed.tools.remodeling import backup_manager as bm_mod
    from hed.tools.remodeling.cli import run_remodel, run_remodel_restore
    rec = core.Rec()
    if "history" in case and "selection" in case and "crash_before_step" not in case:
        cli = {"remodel": run_remodel, "restore": run_remodel_restore}
        hist = [tuple(o) for o in case["history"]]
        with contextlib.redirect_stdout(io.StringIO()):
            run_history(rec, bm_mod, cli, os.path.join(ctx.subdir("replay"), "d"), tuple(case["selection"]), hist)
    return [(fp, d) for fp, lst in rec.viol.items() for d in lst[:1]]
