"""C14 - schema compliance checking accepts released schemas and flags seeded faults.

Engine E1: every bundled standard and partnered library schema must pass unchanged; per schema, each fault kind of the
statement is seeded (on the XML source tree, one fault per schema instance) at every position where it applies (thorough) or
at the first / middle / last and every k-th position of each structural class (quick); the compliance check must report an
issue with the specification code of that fault naming the seeded entry; with warnings off exactly the error subset.
"""
import copy
import os
import time
import xml.etree.ElementTree as ET

from mc import core

ID = "C14"
LEVEL = "model_checking"
RULE = ("schemas = every bundled standard and partnered library XML; fault kinds = duplicate node, undeclared / wrong-section "
        "attribute, dangling unitClass / valueClass / suggestedTag / relatedTag, class attributes on a non-placeholder, "
        "deprecatedFrom unknown / not older, non-positive or non-numeric conversionFactor, foreign defaultUnits, unknown "
        "allowedCharacter, foreign inLibrary, hedId out of range / malformed / changed (version-bumped successor); positions = "
        "every node / unit / class / modifier / attribute occurrence where the kind applies.  state = (schema, fault kind, "
        "section, depth class); transition = one load + compliance check; non-trivial = a seeded instance")
ASSUMPTIONS = [
    "the expected codes are the specification's schema codes as listed in EXPECTED; attribute-value faults have warning "
    "severity in this code base, so they are demanded with warnings on and must be absent with warnings off",
    "a load that refuses the seeded schema with a HedFileError carrying an issue with the expected code counts as reported",
    "the 'changed hedId' clause is reached through a successor made by bumping the version of a bundled schema that carries ids",
]

ERR = 1
EXPECTED = {
    # every seeded copy has the owner (standard / library) of its original, so the clash is a plain duplicate, not the
    # library-against-standard name clash (SCHEMA_LIBRARY_INVALID)
    "duplicate-node": {"SCHEMA_DUPLICATE_NODE"},
    "undeclared-attribute": {"SCHEMA_ATTRIBUTE_INVALID"},
    "wrong-section-attribute": {"SCHEMA_ATTRIBUTE_INVALID"},
    "dangling-unit-class": {"SCHEMA_ATTRIBUTE_VALUE_INVALID"},
    "dangling-value-class": {"SCHEMA_ATTRIBUTE_VALUE_INVALID"},
    "dangling-tag-reference": {"SCHEMA_ATTRIBUTE_VALUE_INVALID"},
    "class-on-non-placeholder": {"SCHEMA_ATTRIBUTE_VALUE_INVALID", "SCHEMA_ATTRIBUTE_INVALID"},
    "deprecated-from-unknown": {"SCHEMA_DEPRECATION_ERROR"},
    "deprecated-from-not-older": {"SCHEMA_DEPRECATION_ERROR"},
    "conversion-factor": {"SCHEMA_ATTRIBUTE_VALUE_INVALID"},
    "default-units": {"SCHEMA_ATTRIBUTE_VALUE_INVALID"},
    "allowed-character": {"SCHEMA_ATTRIBUTE_VALUE_INVALID"},
    "foreign-in-library": {"SCHEMA_ATTRIBUTE_VALUE_INVALID", "SCHEMA_ATTRIBUTE_INVALID"},
    # not one of the statement's fault kinds; seeded for the last clause (with warnings off only errors are returned)
    "text-character": {"SCHEMA_CHARACTER_INVALID"},
    "hed-id-out-of-range": {"SCHEMA_ATTRIBUTE_VALUE_INVALID"},
    "hed-id-malformed": {"SCHEMA_ATTRIBUTE_VALUE_INVALID"},
    "hed-id-changed": {"SCHEMA_ATTRIBUTE_VALUE_INVALID"},
}
WRONG_VALUES = {"allowedCharacter": "letters", "defaultUnits": "s", "conversionFactor": "1.0"}   # value-carrying attributes
ERROR_SEVERITY_KINDS = {"duplicate-node", "undeclared-attribute", "wrong-section-attribute"}


def attr(elem, name):
    for a in elem.findall("attribute"):
        if a.findtext("name") == name:
            return a
    return None


def set_attr(elem, name, value=None):
    a = attr(elem, name)
    if a is None:
        a = ET.SubElement(elem, "attribute")
        ET.SubElement(a, "name").text = name
    for v in a.findall("value"):
        a.remove(v)
    if value is not None:
        ET.SubElement(a, "value").text = value
    return a


class Source:
    def __init__(self, fname):
        self.fname = fname
        self.path = os.path.join(core.SCHEMA_DATA, fname)
        self.root = ET.parse(self.path).getroot()
        self.version = self.root.get("version")
        self.library = self.root.get("library", "")
        self.with_standard = self.root.get("withStandard", "")
        self.declared = {d.findtext("name") for d in self.root.iter("schemaAttributeDefinition")}
        # older released versions of the same schema line (from the bundled file names)
        prefix = f"HED_{self.library}_" if self.library else "HED"
        vers = [f[len(prefix):-4] for f in core.bundled_files() if f.startswith(prefix) and (self.library or "_" not in f)]

        def key(v):
            return tuple(int(x) for x in v.split("."))
        self.older_versions = sorted((v for v in vers if key(v) < key(self.version)), key=key, reverse=True)
        # attributes declared for other sections only (from the property lists of the attribute definitions)
        self.not_for_tags = []
        for d in self.root.iter("schemaAttributeDefinition"):
            props = {p.findtext("name") for p in d.findall("property")}
            other = props & {"unitClassProperty", "unitModifierProperty", "unitProperty", "valueClassProperty",
                             "unitClassDomain", "unitModifierDomain", "unitDomain", "valueClassDomain"}
            tagish = props & {"tagDomain", "elementDomain", "elementProperty", "nodeProperty"}
            if other and not tagish:
                self.not_for_tags.append(d.findtext("name"))

    def nodes(self, root):
        out = []

        def walk(e, depth, parent):
            for n in e.findall("node"):
                out.append((n, depth, parent))
                walk(n, depth + 1, n)
        walk(root.find("schema"), 0, None)
        return out

    def positions(self):
        """(kind, description, mutate(root) -> seeded entry name).  Addresses are index paths, stable under deepcopy."""
        pos = []
        nodes = self.nodes(self.root)
        tag_nodes = [(i, n, d, p) for i, (n, d, p) in enumerate(nodes) if n.findtext("name") != "#"]
        ph_nodes = [(i, n, d, p) for i, (n, d, p) in enumerate(nodes) if n.findtext("name") == "#"]

        def on_node(i, fn):
            def m(root):
                n = self.nodes(root)[i][0]
                return fn(root, n)
            return m

        def name_of(root, n):
            return n.findtext("name")

        for i, n, d, p in tag_nodes:
            nm = n.findtext("name")
            lib = attr(n, "inLibrary")
            libval = lib.findtext("value") if lib is not None else None

            def dup(root, node, nm=nm, libval=libval):
                host = root.find("schema")
                first = host.findall("node")[-1]
                new = ET.SubElement(first, "node")
                ET.SubElement(new, "name").text = nm
                if libval:
                    set_attr(new, "inLibrary", libval)
                return nm
            pos.append(("duplicate-node", f"tag {nm} depth {d}", on_node(i, dup), ("Tags", d)))
            pos.append(("undeclared-attribute", f"tag {nm}", on_node(i, lambda r, node: (set_attr(node, "zzNotDeclared"), name_of(r, node))[1]),
                        ("Tags", d)))
            if d <= 1 or not n.findall("node"):
                for wa in self.not_for_tags:
                    pos.append(("wrong-section-attribute", f"tag {nm} + {wa}",
                                on_node(i, lambda r, node, wa=wa: (set_attr(node, wa, WRONG_VALUES.get(wa)), name_of(r, node))[1]),
                                ("Tags", min(d, 2), wa)))
            if not n.findall("node"):
                pos.append(("deprecated-from-unknown", f"leaf {nm}",
                            on_node(i, lambda r, node: (set_attr(node, "deprecatedFrom", "99.0.0"), name_of(r, node))[1]), ("Tags", d)))
                own = self.version if (libval or not self.with_standard) else self.with_standard
                pos.append(("deprecated-from-not-older", f"leaf {nm} = {own}",
                            on_node(i, lambda r, node, own=own: (set_attr(node, "deprecatedFrom", own), name_of(r, node))[1]),
                            ("Tags", d)))
                for cls_attr, val in (("unitClass", "timeUnits"), ("valueClass", "textClass"), ("takesValue", None)):
                    pos.append(("class-on-non-placeholder", f"leaf {nm} + {cls_attr}",
                                on_node(i, lambda r, node, a=cls_attr, v=val: (set_attr(node, a, v), name_of(r, node))[1]),
                                ("Tags", d)))
            for a in ("suggestedTag", "relatedTag"):
                if attr(n, a) is not None:
                    pos.append(("dangling-tag-reference", f"{a} of {nm}",
                                on_node(i, lambda r, node, a=a: (set_attr(node, a, "Zzq-no-such-tag"), name_of(r, node))[1]),
                                ("Tags", d)))
            if "inLibrary" in self.declared or self.library:
                foreigns = ["otherlib"]
                if self.library:
                    L = self.library
                    foreigns += [L[1:], L[:-1], L[1:-1], L + "2", L.upper()]
                for foreign in foreigns:
                    pos.append(("foreign-in-library", f"tag {nm} = {foreign}",
                                on_node(i, lambda r, node, foreign=foreign: (set_attr(node, "inLibrary", foreign),
                                                                             name_of(r, node))[1]), ("Tags", d, foreign)))
            if not n.findall("node") and self.older_versions and (libval or not self.library):
                # a deprecatedFrom naming an older released version is legitimate, wherever the tag sits
                for old in self.older_versions[:2]:
                    pos.append(("valid:deprecated-from-older", f"leaf {nm} = {old}",
                                on_node(i, lambda r, node, old=old: (set_attr(node, "deprecatedFrom", old), name_of(r, node))[1]),
                                ("Tags", d, "valid")))
            if attr(n, "hedId") is not None:
                pos.append(("hed-id-out-of-range", f"tag {nm}",
                            on_node(i, lambda r, node: (set_attr(node, "hedId", "HED_0000001"), name_of(r, node))[1]), ("Tags", d)))
                # the id whose number is zero is as far out of range as any other
                pos.append(("hed-id-out-of-range", f"tag {nm} (zero)",
                            on_node(i, lambda r, node: (set_attr(node, "hedId", "HED_0000000"), name_of(r, node))[1]),
                            ("Tags", d, "zero")))
                pos.append(("hed-id-malformed", f"tag {nm}",
                            on_node(i, lambda r, node: (set_attr(node, "hedId", "HED_12x45"), name_of(r, node))[1]), ("Tags", d)))
                old = attr(n, "hedId").findtext("value")

                def changed(root, node, old=old):
                    num = int(old[4:])
                    set_attr(node, "hedId", "HED_%07d" % (num + 1 if num % 2 == 0 else num - 1))
                    bump(root)
                    return node.findtext("name")
                # the successor is made by bumping this file's version: only entries of the bumped (library or standard)
                # schema have a predecessor that carries ids
                if not self.library or libval:
                    pos.append(("hed-id-changed", f"tag {nm}", on_node(i, changed), ("Tags", d)))
        for i, n, d, p in ph_nodes:
            pname = p.findtext("name") + "/#"

            def dup_placeholder(root, node, i=i):
                parent = self.nodes(root)[i][2]
                parent.append(copy.deepcopy(node))
                return parent.findtext("name") + "/#"
            pos.append(("duplicate-node", f"placeholder of {pname}", on_node(i, dup_placeholder), ("Tags#", d)))
            if attr(n, "unitClass") is not None:
                pos.append(("dangling-unit-class", f"unitClass of {pname}",
                            on_node(i, lambda r, node, pn=pname: (set_attr(node, "unitClass", "zzUnits"), pn)[1]), ("Tags#", d)))
            if attr(n, "valueClass") is not None:
                pos.append(("dangling-value-class", f"valueClass of {pname}",
                            on_node(i, lambda r, node, pn=pname: (set_attr(node, "valueClass", "zzClass"), pn)[1]), ("Tags#", d)))

        def section(tagname, sub=None):
            def get(root):
                out = []
                for defn in root.iter(tagname):
                    out.append(defn)
                    if sub:
                        out += defn.findall(sub)
                return out
            return get

        def on_sec(getter, i, fn):
            def m(root):
                e = getter(root)[i]
                return fn(root, e)
            return m
        ug = section("unitClassDefinition", "unit")
        for i, e in enumerate(ug(self.root)):
            nm = e.findtext("name")
            kind = "Units" if e.tag == "unit" else "UnitClasses"
            pos.append(("undeclared-attribute", f"{kind} {nm}",
                        on_sec(ug, i, lambda r, el: (set_attr(el, "zzNotDeclared"), el.findtext("name"))[1]), (kind, 0)))
            pos.append(("wrong-section-attribute", f"{kind} {nm} + extensionAllowed",
                        on_sec(ug, i, lambda r, el: (set_attr(el, "extensionAllowed"), el.findtext("name"))[1]), (kind, 0)))
            for wa, wv in self.tag_only_attributes():
                pos.append(("wrong-section-attribute", f"{kind} {nm} + {wa}",
                            on_sec(ug, i, lambda r, el, wa=wa, wv=wv: (set_attr(el, wa, wv), el.findtext("name"))[1]), (kind, 0, wa)))
            if e.tag == "unit" and attr(e, "conversionFactor") is not None:
                for bad in ("0", "-1.0", "abc"):
                    pos.append(("conversion-factor", f"unit {nm} = {bad}",
                                on_sec(ug, i, lambda r, el, b=bad: (set_attr(el, "conversionFactor", b), el.findtext("name"))[1]),
                                (kind, 0)))
            if e.tag == "unitClassDefinition" and attr(e, "defaultUnits") is not None:
                pos.append(("default-units", f"unit class {nm}",
                            on_sec(ug, i, lambda r, el: (set_attr(el, "defaultUnits", "zzunit"), el.findtext("name"))[1]), (kind, 0)))
                # a unit that exists - in another unit class
                own_units = {u.findtext("name") for u in e.findall("unit")}
                foreign = next((u.findtext("name") for d in self.root.iter("unitClassDefinition") if d is not e
                                for u in d.findall("unit") if u.findtext("name") not in own_units), None)
                if foreign:
                    pos.append(("default-units", f"unit class {nm} = {foreign} (a unit of another class)",
                                on_sec(ug, i, lambda r, el, fu=foreign: (set_attr(el, "defaultUnits", fu), el.findtext("name"))[1]),
                                (kind, 0, "foreign")))
            if attr(e, "allowedCharacter") is not None:
                pos.append(("allowed-character", f"{kind} {nm}",
                            on_sec(ug, i, lambda r, el: (set_attr(el, "allowedCharacter", "zzchars"), el.findtext("name"))[1]),
                            (kind, 0)))
            if attr(e, "hedId") is not None:
                pos.append(("hed-id-malformed", f"{kind} {nm}",
                            on_sec(ug, i, lambda r, el: (set_attr(el, "hedId", "HED_12x45"), el.findtext("name"))[1]), (kind, 0)))
            own = (not self.library) or attr(e, "inLibrary") is not None
            if attr(e, "hedId") is not None and own:
                pos.append(("hed-id-out-of-range", f"{kind} {nm}",
                            on_sec(ug, i, lambda r, el: (set_attr(el, "hedId", "HED_0000001"), el.findtext("name"))[1]), (kind, 0)))
                pos.append(("hed-id-out-of-range", f"{kind} {nm} (zero)",
                            on_sec(ug, i, lambda r, el: (set_attr(el, "hedId", "HED_0000000"), el.findtext("name"))[1]),
                            (kind, 0, "zero")))
                pos.append(("hed-id-changed", f"{kind} {nm}", on_sec(ug, i, self.changed_id), (kind, 0)))
            if e.tag == "unitClassDefinition":
                # a second definition of the class: name only / name + description / verbatim copy
                for style in ("bare", "described", "verbatim"):
                    pos.append(("duplicate-node", f"unit class {nm} ({style})", on_sec(ug, i, self.dup_section(style)), (kind, 0)))
        for tagname, kind in (("unitModifierDefinition", "UnitModifiers"), ("valueClassDefinition", "ValueClasses")):
            g = section(tagname)
            for i, e in enumerate(g(self.root)):
                nm = e.findtext("name")
                pos.append(("undeclared-attribute", f"{kind} {nm}",
                            on_sec(g, i, lambda r, el: (set_attr(el, "zzNotDeclared"), el.findtext("name"))[1]), (kind, 0)))
                for wa, wv in self.tag_only_attributes():
                    pos.append(("wrong-section-attribute", f"{kind} {nm} + {wa}",
                                on_sec(g, i, lambda r, el, wa=wa, wv=wv: (set_attr(el, wa, wv), el.findtext("name"))[1]),
                                (kind, 0, wa)))
                if attr(e, "conversionFactor") is not None:
                    pos.append(("conversion-factor", f"modifier {nm} = -3",
                                on_sec(g, i, lambda r, el: (set_attr(el, "conversionFactor", "-3"), el.findtext("name"))[1]),
                                (kind, 0)))
                if attr(e, "allowedCharacter") is not None:
                    pos.append(("allowed-character", f"{kind} {nm}",
                                on_sec(g, i, lambda r, el: (set_attr(el, "allowedCharacter", "zzchars"), el.findtext("name"))[1]),
                                (kind, 0)))
                own = (not self.library) or attr(e, "inLibrary") is not None
                if attr(e, "hedId") is not None and own:
                    pos.append(("hed-id-out-of-range", f"{kind} {nm}",
                                on_sec(g, i, lambda r, el: (set_attr(el, "hedId", "HED_0000001"), el.findtext("name"))[1]),
                                (kind, 0)))
                    pos.append(("hed-id-changed", f"{kind} {nm}", on_sec(g, i, self.changed_id), (kind, 0)))
                for style in ("bare", "verbatim"):
                    pos.append(("duplicate-node", f"{kind} {nm} ({style})", on_sec(g, i, self.dup_section(style)), (kind, 0)))
        for tagname, kind in (("schemaAttributeDefinition", "Attributes"), ("propertyDefinition", "Properties")):
            g = section(tagname)
            for i, e in enumerate(g(self.root)):
                nm = e.findtext("name")
                own = (not self.library) or attr(e, "inLibrary") is not None
                if attr(e, "hedId") is None and e.find("property[name='hedId']") is None:
                    pass
                if self.entry_hed_id(e) is not None and own:
                    pos.append(("hed-id-changed", f"{kind} {nm}", on_sec(g, i, self.changed_id), (kind, 0)))
        # a character outside the text class in the prologue / epilogue (8.3-generation schemas check those texts)
        if self.fname in ("HED8.3.0.xml", "HED_score_2.0.0.xml"):
            for which in ("prologue", "epilogue"):
                def bad_text(r, which=which):
                    e = r.find(which)
                    e.text = (e.text or "") + "\tbad {brace}"
                    return which.capitalize()
                pos.append(("text-character", f"{which} text", bad_text, ("Text", 0, which)))
        return pos

    def tag_only_attributes(self):
        """Attributes declared for tags only, with a value that exists in this schema (seeded on units, classes, modifiers)."""
        ucs = [d.findtext("name") for d in self.root.iter("unitClassDefinition")]
        vcs = [d.findtext("name") for d in self.root.iter("valueClassDefinition")]
        out = [("takesValue", None)]
        if ucs:
            out.append(("unitClass", ucs[0]))
        if vcs:
            out.append(("valueClass", vcs[0]))
        return out

    @staticmethod
    def entry_hed_id(e):
        for tag in ("attribute", "property"):
            for a in e.findall(tag):
                if a.findtext("name") == "hedId":
                    return a
        return None

    def changed_id(self, root, el):
        """Give the entry the id of its neighbour +-1 (still inside the range) in a version-bumped successor."""
        a = self.entry_hed_id(el)
        old = a.findtext("value")
        num = int(old[4:])
        a.find("value").text = "HED_%07d" % (num + 1 if num % 2 == 0 else num - 1)
        bump(root)
        return el.findtext("name")

    @staticmethod
    def dup_section(style):
        def m(root, el):
            parent = next(p for p in root.iter() if el in list(p))
            new = ET.SubElement(parent, el.tag)
            ET.SubElement(new, "name").text = el.findtext("name")
            if style == "described":
                ET.SubElement(new, "description").text = "A second definition."
            if style == "verbatim":
                for child in list(el):
                    if child.tag not in ("name", "unit"):
                        new.append(copy.deepcopy(child))
            return el.findtext("name")
        return m


def bump(root):
    v = root.get("version").split(".")
    v[-1] = str(int(v[-1]) + 1)
    root.set("version", ".".join(v))


def select(positions, thorough, per_class):
    if thorough:
        return list(range(len(positions)))
    groups = {}
    for i, p in enumerate(positions):
        groups.setdefault((p[0], p[3]), []).append(i)
    keep = set()
    for key, idxs in groups.items():
        k = max(1, len(idxs) // per_class)
        keep.update(idxs[::k][:per_class])
        keep.add(idxs[-1])
    return sorted(keep)


def check_position(rec, src, kind, desc, mutate):
    from hed.schema import from_string
    from hed.errors.exceptions import HedFileError
    root = copy.deepcopy(src.root)
    name = mutate(root)
    xml = ET.tostring(root, encoding="unicode")
    rec.n("evaluations")
    rec.n("transitions")
    rec.n("distinct_nontrivial")
    where = {"schema": src.fname, "fault": kind, "position": desc}
    try:
        schema = from_string(xml, ".xml")
    except HedFileError as e:
        codes = {i.get("code") for i in (e.issues or [])} | {e.code}
        # a foreign library name on the node other library nodes are rooted at also takes that node out of the library: the
        # loader refuses the file as a whole with its library code, which reports the fault as well
        if codes & (EXPECTED[kind] | ({"SCHEMA_LIBRARY_INVALID"} if kind == "foreign-in-library" else set())):
            rec.outcome(f"{kind}:refused-at-load")
            return
        rec.violation(f"C14:{kind}:load-refused-with-other-code:{e.code}", message=str(e.message)[:200], **where)
        return
    except Exception as e:
        rec.violation(f"C14:{kind}:load-raises:{type(e).__name__}", error=repr(e)[:200], **where)
        return
    try:
        issues = schema.check_compliance(check_for_warnings=True)
        errors_only = schema.check_compliance(check_for_warnings=False)
    except Exception as e:
        rec.violation(f"C14:{kind}:check-raises:{type(e).__name__}", error=repr(e)[:200], **where)
        rec.outcome(f"{kind}:raises")
        return
    if kind.startswith("valid:"):
        # only the judgement of the value itself (a deprecated tag that other tags refer to is a different rule)
        wrong = [i for i in issues if i["code"] == "SCHEMA_DEPRECATION_ERROR" and name_matches(i, name)
                 and "deprecatedFrom" in i["message"]]
        if wrong:
            rec.violation(f"C14:{kind}:legitimate-value-reported:{section_of(desc)}", seeded_entry=name,
                          message=wrong[0]["message"][:200], **where)
        rec.outcome(f"{kind}:{'reported' if wrong else 'accepted'}")
        return
    hits = [i for i in issues if i["code"] in EXPECTED[kind]]
    named = [i for i in hits if name_matches(i, name)]
    if not named:
        rec.violation(f"C14:{kind}:not-reported:{src.fname if kind.startswith('hed-id') else section_of(desc)}",
                      seeded_entry=name, got=sorted({i['code'] for i in issues})[:8], **where)
        rec.outcome(f"{kind}:missed")
        return
    if any(i["severity"] != ERR for i in errors_only):
        rec.violation(f"C14:{kind}:warning-returned-with-warnings-off", **where)
    key = lambda i: (i["code"], i["message"])
    if sorted(map(key, errors_only)) != sorted(key(i) for i in issues if i["severity"] == ERR):
        rec.violation(f"C14:{kind}:errors-only-is-not-the-error-subset", **where)
    if kind in ERROR_SEVERITY_KINDS and not any(i["severity"] == ERR for i in named):
        rec.violation(f"C14:{kind}:not-error-severity", **where)
    rec.outcome(f"{kind}:reported")


def section_of(desc):
    return desc.split(" ")[0]


def name_matches(issue, name):
    base = name[:-2] if name.endswith("/#") else name
    blob = " ".join(str(issue.get(k, "")) for k in ("ec_schema_tag", "message"))
    return base in blob or name in blob


def worker(rec, shard, nshards, files, thorough, per_class, budget_end, seed):
    for f in files:
        src = Source(f)
        positions = src.positions()
        chosen = select(positions, thorough, per_class)
        done = 0
        for k in core.shard_order(len(chosen), shard, nshards, seed):
            if budget_end and time.time() > budget_end:
                rec.notes["exhaustive"] = False
                rec.notes.setdefault("capped", []).append(f)
                break
            kind, desc, mutate, cls = positions[chosen[k]]
            rec.state((f, kind, cls))
            check_position(rec, src, kind, desc, mutate)
            done += 1
            if k % 211 == 0:
                rec.sample({"schema": f, "fault": kind, "position": desc})
        rec.n("positions_" + f, done)


def unchanged(ctx, files):
    from hed.schema import load_schema
    rec = ctx.rec
    for f in files:
        rec.n("evaluations")
        try:
            schema = load_schema(os.path.join(core.SCHEMA_DATA, f))
            issues = schema.check_compliance(check_for_warnings=True)
            errs = schema.check_compliance(check_for_warnings=False)
        except Exception as e:
            rec.violation("C14:released-schema-raises:" + type(e).__name__, schema=f, error=repr(e)[:200])
            continue
        bad = [i for i in issues if i["severity"] == ERR]
        if bad or errs:
            rec.violation("C14:released-schema-has-errors:" + (bad or errs)[0]["code"], schema=f,
                          codes=sorted({i["code"] for i in bad + errs}))
        rec.outcome("released:" + ("warnings" if issues else "clean"))
    # the command-line checker agrees on released files
    try:
        from hed.scripts import validate_schemas
        rc = validate_schemas.main([os.path.join(core.SCHEMA_DATA, files[0])]) if hasattr(validate_schemas, "main") else None
        if rc not in (None, 0):
            rec.violation("C14:validate_schemas-rejects-released-schema", schema=files[0], rc=rc)
    except SystemExit as e:
        if e.code not in (None, 0):
            rec.violation("C14:validate_schemas-rejects-released-schema", schema=files[0], rc=e.code)
    except Exception as e:
        rec.notes["validate_schemas"] = "not exercised: " + type(e).__name__


def run(ctx):
    all_files = [f for f in core.bundled_files() if f not in ("HED_score_1.0.0.xml", "HED_testlib_1.0.2.xml")]
    files = all_files if ctx.thorough else ["HED8.3.0.xml", "HED8.2.0.xml", "HED_score_2.0.0.xml", "HED_testlib_3.0.0.xml"]
    per_class = 4
    budget_end = ctx.deadline or (ctx.t0 + (5400 if ctx.thorough else 240))
    ctx.rec.notes["bounds"] = {"schemas": files, "positions": "all" if ctx.thorough else f"<= {per_class + 1} per (fault kind, section, depth)",
                               "fault_kinds": sorted(EXPECTED)}
    unchanged(ctx, all_files)
    ctx.parallel(worker, files, ctx.thorough, per_class, budget_end, ctx.seed)
    if ctx.rec.notes.get("capped"):
        ctx.capped = True
    ctx.rec.counts["states"] = len(ctx.rec.states)


def replay(ctx, case):
    rec = core.Rec()
    src = Source(case["schema"])
    for kind, desc, mutate, cls in src.positions():
        if kind == case["fault"] and desc == case["position"]:
            check_position(rec, src, kind, desc, mutate)
    return [(fp, d) for fp, lst in rec.viol.items() for d in lst[:1]]
