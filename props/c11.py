"""C11 - units are accepted and converted exactly as the schema defines them.

Engine E1: for every bundled schema, every value-taking tag with unit classes x every unit of those classes x every SI
modifier (permitted or not) x spelling forms x numeric literals, plus every foreign unit.  The oracle derives, from the
independent XML model, the *set* of (unit, modifier) readings of each unit text; accepted <=> the set is non-empty.
"""
import math
import os

from mc import core, schema_model, hedgen
from mc.schema_model import as_list, number

ID = "C11"
LEVEL = "model_checking"
RULE = ("every (schema, tag with unit classes, unit of its classes, modifier in {none} + all 40 modifiers, form in {name, "
        "plural, Capitalised, UPPER, sWAP, symbol as declared}, numeric literal) + every unit of every other class + "
        "nonsense units + bare numbers; expectation computed by an independent derivation-set oracle.  distinct case = "
        "(schema, tag, unit text, literal); non-trivial = has a modifier or a non-canonical spelling; state = (schema, tag, "
        "unit, modifier); transition = one validation + one conversion on the implementation")
ASSUMPTIONS = [
    "plural forms come from the hand-reviewed table PLURALS; unit names without an entry are checked in singular only",
    "numeric factor text is read with '^' == 'e' (schema_model.number), the convention of the released 8.3.0 schema",
    "a spelling may have several derivations (8.3.0: 'uV' = unit uV or micro+V); any derivation's value is accepted",
    "only UNITS_INVALID / VALUE_INVALID / UNITS_MISSING are judged; placement errors of Duration/Delay are ignored here",
]

PLURALS = {"volt": "volts", "byte": "bytes", "candela": "candelas", "day": "days", "degree": "degrees",
           "dollar": "dollars", "euro": "euros", "foot": "feet", "gram": "grams", "hertz": "hertz", "hour": "hours",
           "inch": "inches", "lb": "lbs", "meter": "meters", "metre": "metres", "mile": "miles", "minute": "minutes",
           "month": "months", "point": "points", "pound": "pounds", "radian": "radians", "second": "seconds",
           "tesla": "teslas", "year": "years", "uv": "uvs"}
LITERALS = ["3", "-3", "3.5", ".5", "1e3", "1E-2", "+2", "0", "3E+2", "2e+1", "-1.5E-3", "3.", "-12.", "3.e2", "+.5e1", "007"]
ERR = 1


class Oracle:
    def __init__(self, model):
        self.m = model
        self.name_mods = [m for m in model.modifiers.values() if "SIUnitModifier" in m.attrs]
        self.sym_mods = [m for m in model.modifiers.values() if "SIUnitSymbolModifier" in m.attrs]

    def units_of(self, tag):
        out = []
        for cname in as_list(tag.value_child.attrs.get("unitClass")):
            uc = self.m.unit_classes.get(cname)
            if uc:
                out += [(u, uc) for u in uc.units.values()]
        return out

    def bases(self, u):
        if "unitSymbol" in u.attrs:
            return [u.name]
        low = u.name.lower()
        return [low] + ([PLURALS[low]] if low in PLURALS else [])

    def mods_for(self, u):
        if "SIUnit" not in u.attrs:
            return [None]
        return [None] + (self.sym_mods if "unitSymbol" in u.attrs else self.name_mods)

    def derivations(self, tag, text):
        out = []
        for u, uc in self.units_of(tag):
            sym = "unitSymbol" in u.attrs
            for m in self.mods_for(u):
                for b in self.bases(u):
                    cand = (m.name if m else "") + b
                    if (text == cand) if sym else (text.casefold() == cand.casefold()):
                        out.append((u, m))
        return out

    def factor(self, u, m):
        if "conversionFactor" not in u.attrs:
            return None
        f = number(u.attrs.get("conversionFactor"))
        if f is None:
            f = 1.0
        if m is not None:
            g = number(m.attrs.get("conversionFactor")) if "conversionFactor" in m.attrs else 1.0
            f *= (g if g is not None else 1.0)
        return f


def unit_texts(orc, tag, all_mods, foreign):
    """Candidate unit texts for one tag: (text, state key)."""
    seen = {}
    for u, uc in orc.units_of(tag):
        sym = "unitSymbol" in u.attrs
        for m in [None] + all_mods:
            pre = m.name if m else ""
            forms = []
            if sym:
                forms = [pre + u.name, (pre + u.name).swapcase(), (pre + u.name).upper(), (pre + u.name).lower()]
                # symbols have no plural: 'ms' on a length tag, 'kgs', 'hzzes' (the oracle decides; a plural that happens to
                # be another declared unit keeps its reading)
                if m is None or "SIUnit" in u.attrs:
                    forms += [pre + u.name + "s", pre + u.name + "es"]
            else:
                for b in orc.bases(u):
                    w = pre + b
                    forms += [w, w.capitalize(), w.upper(), w.swapcase(), pre + b.capitalize()]
            for f in forms:
                if " " in f:
                    # a unit name containing a blank: only the declared spelling, without modifier (known finding)
                    if f == u.name:
                        seen.setdefault(f, ("blank-name", u.name, ""))
                    continue
                seen.setdefault(f, (uc.name, u.name, pre))
    for u, uc in orc.units_of(tag):
        if " " in u.name:
            seen.setdefault(u.name, ("blank-name", u.name, ""))
    for f in foreign:
        seen.setdefault(f, ("foreign", f, ""))
    for f in ("zzq", "s2", "xs"):
        seen.setdefault(f, ("nonsense", f, ""))
    return seen


class Setup:
    def __init__(self, fname):
        from hed.schema import load_schema
        from hed.validator import HedValidator
        path = os.path.join(core.SCHEMA_DATA, fname)
        self.label = fname
        self.model = schema_model.load(path)
        self.schema = load_schema(path)
        self.validator = HedValidator(self.schema)
        self.orc = Oracle(self.model)
        self.tags = [t for t in self.model.tags if t.value_child is not None and t.value_child.attrs.get("unitClass")
                     and t.name.casefold() not in self.model.dup_short]
        self.all_mods = list(self.model.modifiers.values())
        self.foreign_all = {}
        for cname, uc in self.model.unit_classes.items():
            for u in uc.units.values():
                if "unitPrefix" in u.attrs or " " in u.name:
                    continue
                self.foreign_all.setdefault(cname, []).append(u.name)
                low = u.name.lower()
                if "unitSymbol" not in u.attrs and low in PLURALS:
                    self.foreign_all[cname].append(PLURALS[low])


def check_case(rec, st, tag, utext, lit, key, HedTag, HedString):
    orc = st.orc
    ders = orc.derivations(tag, utext)
    text = f"{tag.name}/{lit} {utext}"
    rec.n("evaluations")
    rec.n("transitions", 2)
    if key[2] or utext != key[1]:
        rec.n("distinct_nontrivial")
    try:
        hs = HedString(text, st.schema)
        issues = st.validator.validate(hs, allow_placeholders=False)
    except Exception as e:
        rec.violation("C11:validate-raises:" + type(e).__name__, schema=st.label, text=text, error=repr(e)[:200])
        return
    codes = [i["code"] for i in issues]
    bad = [c for c in codes if c in ("UNITS_INVALID", "VALUE_INVALID")]
    if ders and bad:
        rec.violation(f"C11:declared-unit-rejected:{cls(key)}:{bad[0]}", schema=st.label, text=text, codes=codes,
                      derivations=[(u.name, m.name if m else None) for u, m in ders])
        rec.outcome("accepted-expected:rejected")
    elif not ders and "UNITS_INVALID" not in codes:
        rec.violation(f"C11:undeclared-unit-accepted:{cls(key)}", schema=st.label, text=text, codes=codes)
        rec.outcome("rejected-expected:accepted")
    else:
        rec.outcome("accept" if ders else "reject")
    if key[0] == "blank-name":
        return
    # conversion
    try:
        t = HedTag(text, st.schema)
        val = t.value_as_default_unit()
        sv, su = t.get_stripped_unit_value(t.extension)
    except Exception as e:
        rec.violation(f"C11:conversion-raises:{type(e).__name__}:{'accepted' if ders else 'unrecognised'}-unit",
                      schema=st.label, text=text, error=repr(e)[:200])
        return
    if not ders:
        if val is not None:
            rec.violation("C11:value-defined-for-unrecognised-unit", schema=st.label, text=text, value=val)
        if su is not None:
            rec.violation("C11:stripped-unit-for-unrecognised-unit", schema=st.label, text=text, unit=str(su))
        return
    if (sv, su) != (lit, utext):
        rec.violation("C11:stripped-value-differs", schema=st.label, text=text, got=(sv, str(su)))
    x = float(lit)
    wants = {orc.factor(u, m) for u, m in ders}
    if wants == {None}:
        if val is not None:
            rec.violation("C11:value-defined-without-conversion-factor", schema=st.label, text=text, value=val)
        return
    ok = any(f is not None and val is not None and math.isclose(val, x * f, rel_tol=1e-9, abs_tol=1e-300) for f in wants)
    if not ok:
        rec.violation(f"C11:converted-value-wrong:{'prefixed' if key[2] else 'plain'}", schema=st.label, text=text,
                      value=val, expected=sorted(x * f for f in wants if f is not None))
        return
    # linearity: doubling the number doubles the value
    try:
        t2 = HedTag(f"{tag.name}/{2 * x!r} {utext}", st.schema)
        v2 = t2.value_as_default_unit()
    except Exception as e:
        rec.violation("C11:conversion-raises:" + type(e).__name__ + ":doubling", schema=st.label, text=text)
        return
    if v2 is None or not math.isclose(v2, 2 * val, rel_tol=1e-9, abs_tol=1e-300):
        rec.violation("C11:conversion-not-linear", schema=st.label, text=text, v=val, v2=v2)


def cls(key):
    if key[0] == "blank-name":
        return "unit-name-with-blank:" + key[1]
    return key[0] if key[0] in ("foreign", "nonsense") else ("prefixed" if key[2] else "plain")


def worker(rec, shard, nshards, setups, lits, seed):
    from hed.models.hed_tag import HedTag
    from hed.models.hed_string import HedString
    for st in setups:
        items = []
        for tag in st.tags:
            own = set(as_list(tag.value_child.attrs.get("unitClass")))
            foreign = [n for c, names in st.foreign_all.items() if c not in own for n in names]
            for utext, key in unit_texts(st.orc, tag, st.all_mods, foreign).items():
                items.append((tag, utext, key))
        for idx in core.shard_order(len(items), shard, nshards, seed):
            tag, utext, key = items[idx]
            rec.state((st.label, tag.name, key))
            for lit in lits:
                check_case(rec, st, tag, utext, lit, key, HedTag, HedString)
            if idx % 3001 == 0:
                rec.sample({"schema": st.label, "text": f"{tag.name}/{lits[0]} {utext}",
                            "derivations": [(u.name, m.name if m else None) for u, m in st.orc.derivations(tag, utext)]})
        # bare numbers and prefix-type units, per tag
        for ti in core.shard_order(len(st.tags), shard, nshards, seed):
            tag = st.tags[ti]
            for lit in lits:
                text = f"{tag.name}/{lit}"
                rec.n("evaluations")
                try:
                    issues = st.validator.validate(HedString(text, st.schema), allow_placeholders=False)
                except Exception as e:
                    rec.violation("C11:bare-number-raises:" + type(e).__name__, schema=st.label, text=text,
                                  error=repr(e)[:200])
                    continue
                codes = [(i["code"], i["severity"]) for i in issues]
                if ("UNITS_MISSING", 10) not in codes or any(c in ("UNITS_INVALID", "VALUE_INVALID") for c, _ in codes):
                    rec.violation("C11:bare-number-not-only-missing-unit-warning", schema=st.label, text=text, codes=codes)
                rec.outcome("bare")
                # where every unit class of the tag names one of its own units as the default, asking for the value of a bare
                # number in default units is no exception
                ucs = [st.model.unit_classes.get(c) for c in as_list(tag.value_child.attrs.get("unitClass"))]
                if len(ucs) == 1 and ucs[0] is not None and ucs[0].attrs.get("defaultUnits") in ucs[0].units:
                    try:
                        HedTag(text, st.schema).value_as_default_unit()
                    except Exception as e:
                        rec.violation("C11:bare-number-conversion-raises:" + type(e).__name__, schema=st.label, text=text,
                                      default_unit=ucs[0].attrs.get("defaultUnits"), error=repr(e)[:200])
            # texts that Python's float() reads and the numeric class does not: not numbers, whatever unit follows
            vcs = as_list(tag.value_child.attrs.get("valueClass"))
            first_unit = next((u.name for u, uc in st.orc.units_of(tag) if "unitPrefix" not in u.attrs and " " not in u.name), None)
            if vcs == ["numericClass"] and first_unit:
                for bad_lit in ("nan", "inf", "-inf", "Infinity", "1_000", "0x10", "1e", "--3"):
                    text = f"{tag.name}/{bad_lit} {first_unit}"
                    rec.n("evaluations")
                    rec.n("distinct_nontrivial")
                    try:
                        sev = [(i["code"], i["severity"]) for i in st.validator.validate(HedString(text, st.schema), False)]
                    except Exception as e:
                        rec.violation("C11:validate-raises:" + type(e).__name__, schema=st.label, text=text, error=repr(e)[:200])
                        continue
                    if not any(v == ERR for c, v in sev):
                        rec.violation("C11:not-a-number-accepted-before-a-unit", schema=st.label, text=text, codes=sev)
                    rec.outcome("bad-literal")
            # a word between the number and a declared unit: no reading (number, blank, unit) exists -> rejected
            plain_units = [u.name for u, uc in st.orc.units_of(tag) if "unitPrefix" not in u.attrs and " " not in u.name]
            # a unit that is not of the prefix type does not stand before the number
            for u0 in plain_units:
                text = f"{tag.name}/{u0} {lits[0]}"
                if st.orc.derivations(tag, lits[0]):       # the literal itself reads as a unit text (never, but be exact)
                    continue
                rec.n("evaluations")
                rec.n("distinct_nontrivial")
                try:
                    codes = [i["code"] for i in st.validator.validate(HedString(text, st.schema), False)]
                    val = HedTag(text, st.schema).value_as_default_unit()
                except Exception as e:
                    rec.violation("C11:validate-raises:" + type(e).__name__, schema=st.label, text=text, error=repr(e)[:200])
                    continue
                if "UNITS_INVALID" not in codes and "VALUE_INVALID" not in codes:
                    rec.violation("C11:undeclared-unit-accepted:unit-before-number", schema=st.label, text=text, codes=codes)
                if val is not None:
                    rec.violation("C11:value-defined-for-unrecognised-unit", schema=st.label, text=text, value=val)
                rec.outcome("unit-before-number")
            for u0 in plain_units[:2]:
                for text in (f"{tag.name}/{lits[0]} x {u0}", f"{tag.name}/{lits[0]} {u0} {u0}",
                             f"{tag.name}/{lits[0]} zzq {u0}", f"{tag.name}/{lits[0]} 4 {u0}"):
                    rec.n("evaluations")
                    rec.n("distinct_nontrivial")
                    try:
                        codes = [i["code"] for i in st.validator.validate(HedString(text, st.schema), False)]
                    except Exception as e:
                        rec.violation("C11:validate-raises:" + type(e).__name__, schema=st.label, text=text, error=repr(e)[:200])
                        continue
                    if "UNITS_INVALID" not in codes and "VALUE_INVALID" not in codes:
                        rec.violation("C11:undeclared-unit-accepted:word-between-number-and-unit", schema=st.label, text=text,
                                      codes=codes)
                    try:
                        val = HedTag(text, st.schema).value_as_default_unit()
                        if val is not None:
                            rec.violation("C11:value-defined-for-unrecognised-unit", schema=st.label, text=text, value=val)
                    except Exception as e:
                        rec.violation(f"C11:conversion-raises:{type(e).__name__}:unrecognised-unit", schema=st.label, text=text,
                                      error=repr(e)[:200])
                    rec.outcome("embedded-word")
            for u, uc in st.orc.units_of(tag):
                if "unitPrefix" not in u.attrs:
                    continue
                for lit in lits:
                    rec.n("evaluations")
                    good, bad = f"{tag.name}/{u.name} {lit}", f"{tag.name}/{lit} {u.name}"
                    cg = [i["code"] for i in st.validator.validate(HedString(good, st.schema), False)]
                    cb = [i["code"] for i in st.validator.validate(HedString(bad, st.schema), False)]
                    if "UNITS_INVALID" in cg or "VALUE_INVALID" in cg:
                        rec.violation("C11:prefix-unit-before-number-rejected", schema=st.label, text=good, codes=cg)
                    if "UNITS_INVALID" not in cb:
                        rec.violation("C11:prefix-unit-after-number-accepted", schema=st.label, text=bad, codes=cb)
                    rec.outcome("prefix-unit")


ORDER_FILES = ["HED8.0.0.xml", "HED8.2.0.xml", "HED8.3.0.xml", "HED_score_1.1.0.xml", "HED_score_2.0.0.xml"]


def _conversions(files):
    """For the schemas in the given order (one process): per unit tag the validation codes and the converted value of a bare
    number, of a number with the class's first plain unit, and with the default unit."""
    from hed.models.hed_tag import HedTag
    from hed.models.hed_string import HedString
    out = {}
    for f in files:
        st = Setup(f)
        for tag in st.tags:
            texts = [f"{tag.name}/3"]
            units = [u.name for u, uc in st.orc.units_of(tag) if "unitPrefix" not in u.attrs and " " not in u.name]
            texts += [f"{tag.name}/3 {u}" for u in units[:2]]
            for text in texts:
                try:
                    codes = sorted(i["code"] for i in st.validator.validate(HedString(text, st.schema), False))
                except Exception as e:
                    codes = ["RAISES:" + type(e).__name__]
                try:
                    val = HedTag(text, st.schema).value_as_default_unit()
                    val = None if val is None else round(float(val), 12)
                except Exception as e:
                    val = "RAISES:" + type(e).__name__
                out[f"{f}|{text}"] = [codes, val]
    return out


def conversions_forward():
    return _conversions(ORDER_FILES)


def conversions_reverse():
    return _conversions(ORDER_FILES[::-1])


def order_check(ctx):
    """Validation and conversion do not depend on which other schemas the process used before (each order in a fresh
    interpreter)."""
    rec = ctx.rec
    fwd = core.hash_sweep("props.c11", "conversions_forward", [0])[0]
    rev = core.hash_sweep("props.c11", "conversions_reverse", [0])[0]
    rec.n("evaluations", 2 * len(fwd))
    rec.n("transitions", 2 * len(fwd))
    rec.n("distinct_nontrivial", len(fwd))
    for key in sorted(fwd):
        if fwd[key] != rev.get(key):
            rec.violation("C11:result-depends-on-the-schemas-used-before", case=key, first_to_last=fwd[key],
                          last_to_first=rev.get(key), order=ORDER_FILES)
            break
    rec.outcome("schema-order")


def run(ctx):
    files = core.bundled_files() if ctx.thorough else ["HED8.3.0.xml", "HED8.2.0.xml", "HED8.0.0.xml",
                                                       "HED_score_2.0.0.xml"]
    lits = LITERALS if ctx.thorough else ["3", "-3.5", "1e3", ".5", "+2", "3E+2", "3.", "12.e1"]
    setups = [Setup(f) for f in files]
    ctx.rec.notes["bounds"] = {"schemas": files, "literals": lits,
                               "tags_with_units": {s.label: len(s.tags) for s in setups},
                               "modifiers": {s.label: len(s.all_mods) for s in setups}}
    ctx.parallel(worker, setups, lits, ctx.seed)
    order_check(ctx)
    ctx.rec.counts["states"] = len(ctx.rec.states)


def replay(ctx, case):
    from hed.models.hed_tag import HedTag
    from hed.models.hed_string import HedString
    st = Setup(case["schema"])
    rec = core.Rec()
    text = case["text"]
    tname, _, rest = text.partition("/")
    lit, _, utext = rest.partition(" ")
    tag = st.model.by_short[tname.casefold()]
    check_case(rec, st, tag, utext, lit, ("?", utext, ""), HedTag, HedString)
    return [(fp, d) for fp, lst in rec.viol.items() for d in lst[:1]]
