"""C13 - library schemas and namespaces compose without changing meaning.

Engine E1, relational: for every offline (standard, library) pairing and every prefix assignment, every generated annotation
(vocabulary axis in one context + structure axis + mutations, from the independent XML model of the prefixed schema) is
validated under the group with all tags prefixed and under that schema alone unprefixed; the code multisets must be equal.
Plus refusals and the 'partnered library contains every standard tag unchanged' comparison.
"""
import itertools
import os

from mc import core, schema_model, hedgen
from mc.hedgen import Leaf
from props import c01

ID = "C13"
LEVEL = "model_checking"
RULE = ("pairings = every (standard, library) combination loadable offline x every assignment of distinct prefixes from {'', "
        "'sc:', 'tl:'}; annotations = every tag of the prefixed schema's XML (short and long form, with value / extension) + "
        "every forest with <= 3 leaves over a 6-leaf pool incl. unknown tag, forbidden extension and Def + tag-level "
        "mutations of C01; each is prefixed on all tags / on none / with an unloaded prefix / with a non-alphabetic prefix.  "
        "state = (pairing, prefix assignment, schema member); transition = one validation; non-trivial = prefixed annotation")
ASSUMPTIONS = [
    "codes (errors and warnings) are compared as multisets; a difference confined to warnings is reported under its own "
    "fingerprint",
    "definitions are not used under prefixes (Def names are not schema tags)",
]

ERR = 1
PAIRINGS = [
    ("8.3.0", "score_2.0.0"),
    ("8.2.0", "score_1.1.0"),
    ("8.2.0", "testlib_2.0.0"),
    ("8.2.0", "testlib_2.1.0"),
    ("8.2.0", "testlib_3.0.0"),
    ("8.3.0", "testlib_3.0.0"),
    ("score_1.1.0", "testlib_2.0.0"),
    # members on different sides of 8.3.0 (the character rules changed there)
    ("8.3.0", "score_1.1.0"),
    ("8.2.0", "score_2.0.0"),
]


def fname(version):
    return f"HED{version}.xml" if "_" not in version else f"HED_{version}.xml"


def codes(schema, text):
    from hed.models.hed_string import HedString
    issues = HedString(text, schema).validate(allow_placeholders=False)
    return tuple(sorted((i["code"], i["severity"]) for i in issues))


def with_prefix(tree, ns):
    """Render a generator tree with ns put in front of every tag."""
    def rec(items):
        parts = []
        for it in items:
            if isinstance(it, Leaf):
                parts.append(ns + it.text())
            else:
                parts.append("(" + rec(it) + ")")
        return ", ".join(parts)
    return rec(tree)


class Member:
    """One schema of a pairing: its XML model, a validation setup on it alone (unprefixed), and its annotation trees."""

    def __init__(self, version):
        self.version = version
        self.file = fname(version)
        st = c01.Setup(self.file)
        self.st = st
        self.model = st.model
        v = st.vocab
        trees = []
        for t in self.model.tags:
            if t.name.casefold() in self.model.dup_short:
                continue
            reserved = v.is_reserved(t)
            if t.value_child is not None and v.good_value(t):
                suf = v.good_value(t)
            elif t.value_child is None and t.has("extensionAllowed") and "requireChild" not in t.attrs and not reserved:
                suf = ""
            else:
                suf = ""
            trees.append([Leaf(t, suf)])
            trees.append([Leaf(raw=Leaf(t, suf).text("short", "lower"))])      # another letter case (C03/C04 spellings)
            if len(t.terms()) > 1:
                trees.append([Leaf(raw=Leaf(t, suf).text("long"))])
        # values / extensions with non-ASCII letters: which characters a value may hold depends on the schema version
        if st.text_tag is not None:
            trees.append([Leaf(st.text_tag, "/a:b/c")])       # a colon and a later slash inside the value
            trees.append([Leaf(st.plain3[0]), [Leaf(st.text_tag, "/run:1/2")]])
            trees.append([Leaf(st.text_tag, "/Caf\u00e9")])
            trees.append([Leaf(st.plain3[0]), [Leaf(st.text_tag, "/\u03b1-wave")]])
        if st.ext_tag is not None:
            trees.append([Leaf(st.ext_tag, "/Ext-\u00e9")])
        pool = [Leaf(x) for x in st.plain3[:2]]
        if st.ext_tag is not None:
            pool.append(Leaf(st.ext_tag, "/Zzqext-1"))
        if st.unit_tag is not None:
            pool.append(Leaf(st.unit_tag, v.good_value(st.unit_tag)))
        pool.append(Leaf(raw="Zzqunknown"))
        if v.ext_forbidden:
            pool.append(Leaf(v.ext_forbidden[0], "/Zzqext-2"))
        for shp in hedgen.shapes(3, 2, 2):
            for tree in hedgen.fill(shp, pool):
                trees.append(tree)
        self.trees = trees


def build(ctx_thorough):
    from hed.schema import load_schema_version
    pairings = PAIRINGS if ctx_thorough else PAIRINGS[:3] + PAIRINGS[6:]
    members = {}
    configs = []
    for a, b in pairings:
        # (prefixes are letters of either case)
        for pa, pb in (("", "sc:"), ("tl:", "sc:"), ("sc:", ""), ("tl:", "")) + ((("Tl:", "SC:"),) if (a, b) == pairings[0] else ()):
            for v in (a, b):
                if v not in members:
                    members[v] = Member(v)
            spec = [pa + a, pb + b]
            try:
                group = load_schema_version(spec)
            except Exception as e:
                configs.append((spec, None, repr(e)[:200]))
                continue
            configs.append((spec, group, [(pa, a), (pb, b)]))
    alone = {v: load_schema_version(v) for v in members}
    return members, configs, alone


def mixed_across_83(members, parts):
    """True when the members of the group lie on different sides of standard version 8.3.0 (from their XML headers)."""
    def side(version):
        m = members[version].model
        std = m.with_standard or (version if "_" not in version else None)
        if std is None:
            return None
        return tuple(int(x) for x in std.split(".")) >= (8, 3, 0)
    sides = {side(v) for _, v in parts}
    return len(sides - {None}) > 1 or (None in sides and len(sides) > 1)


def worker(rec, shard, nshards, members, configs, alone, thorough, seed):
    items = []
    for ci, (spec, group, parts) in enumerate(configs):
        if group is None:
            continue
        for ns, version in parts:
            m = members[version]
            for ti in range(len(m.trees)):
                items.append((ci, ns, version, ti))
    for idx in core.shard_order(len(items), shard, nshards, seed):
        ci, ns, version, ti = items[idx]
        spec, group, parts = configs[ci]
        m = members[version]
        tree = m.trees[ti]
        plain = with_prefix(tree, "")
        pref = with_prefix(tree, ns)
        rec.state((tuple(spec), ns, version))
        rec.n("evaluations")
        rec.n("transitions", 2)
        if ns:
            rec.n("distinct_nontrivial")
        try:
            want = codes(alone[version], plain)
            got = codes(group, pref)
        except Exception as e:
            rec.violation("C13:raises:" + type(e).__name__, group=spec, text=pref, error=repr(e)[:200])
            continue
        if got != want:
            ge = [c for c, s in got if s == ERR]
            we = [c for c, s in want if s == ERR]
            if ge == we:
                diff = sorted(set(got) ^ set(want))
                rec.violation(f"C13:warning-only-difference:{diff[0][0] if diff else 'count'}", group=spec, prefix=ns,
                              schema=version, text=pref, alone=want, in_group=got)
            elif (not pref.isascii()) and mixed_across_83(members, parts) and \
                    {c for c, s_ in set(got) ^ set(want)} <= {"CHARACTER_INVALID", "TAG_EXTENDED", "TAG_EXTENSION_INVALID",
                                                              "VALUE_INVALID"}:
                # one fingerprint for the one mechanism: the group applies a single character rule set to all its members
                rec.violation("C13:mixed-version-group:non-ascii-text-judged-by-one-character-rule-set", group=spec, prefix=ns,
                              schema=version, text=pref, alone=want, in_group=got)
            else:
                rec.violation(f"C13:prefixed-judged-differently:{'prefixed' if ns else 'unprefixed'}", group=spec, prefix=ns,
                              schema=version, text=pref, alone=want, in_group=got)
            rec.outcome("differs")
            continue
        rec.outcome("same:" + ("errors" if any(s == ERR for _, s in got) else "clean"))
        # a prefix that is not loaded / not alphabetic is an error (one annotation in eight, to bound the cost)
        if ti % 8 == 0:
            for bad in ("xx:", "s1:", ns.upper() if ns else "Q:"):
                if bad in [p for p, _ in parts]:
                    continue
                text = with_prefix(tree, bad)
                if not text.isascii():
                    continue        # a character error of the string-level phase comes first there
                rec.n("evaluations")
                try:
                    c = codes(group, text)
                except Exception as e:
                    rec.violation("C13:raises:" + type(e).__name__, group=spec, text=text, error=repr(e)[:200])
                    continue
                if ("TAG_NAMESPACE_PREFIX_INVALID", ERR) not in c:
                    rec.violation(f"C13:bad-prefix-accepted:{'not-alphabetic' if not bad[:-1].isalpha() else 'not-loaded'}",
                                  group=spec, text=text, codes=c)
                rec.outcome("bad-prefix")
        if idx % 20011 == 0:
            rec.sample({"group": spec, "prefixed": pref, "alone": plain, "codes": got})


def structural_checks(ctx, members, alone):
    """Partnered library = every standard tag with unchanged meaning + its own tags; refusals."""
    from hed.schema import load_schema_version
    from hed.errors.exceptions import HedFileError
    rec = ctx.rec
    for lib_version, m in members.items():
        ws = m.model.with_standard
        if not ws:
            continue
        std_model = schema_model.load(os.path.join(core.SCHEMA_DATA, fname(ws)))
        std = load_schema_version(ws)
        lib = alone[lib_version]
        for t in std_model.tags:
            rec.n("evaluations")
            e_std = std.get_tag_entry(t.long)
            e_lib = lib.get_tag_entry(t.long)
            if e_lib is None or e_std is None:
                rec.violation("C13:partnered:standard-tag-missing", library=lib_version, tag=t.long)
                continue
            a_std = {k: v for k, v in e_std.attributes.items()}
            a_lib = {k: v for k, v in e_lib.attributes.items() if k != "inLibrary"}
            if a_std != a_lib or e_lib.long_tag_name != e_std.long_tag_name:
                rec.violation("C13:partnered:standard-tag-changed", library=lib_version, tag=t.long, standard=a_std,
                              in_library=a_lib)
            vs, vl = e_std.takes_value_child_entry, e_lib.takes_value_child_entry
            if (vs is None) != (vl is None) or (vs is not None and (
                    sorted(vs.unit_classes) != sorted(vl.unit_classes) or sorted(vs.value_classes) != sorted(vl.value_classes))):
                rec.violation("C13:partnered:standard-value-child-changed", library=lib_version, tag=t.long)
        for t in m.model.tags:
            if lib.get_tag_entry(t.long) is None:
                rec.violation("C13:partnered:library-tag-missing", library=lib_version, tag=t.long)
        rec.outcome("partnered-ok")
    refusals = [(["score_1.1.0", "score_1.1.0"], "same-library-twice"),
                (["sc:score_1.1.0", "sc:score_1.1.0"], "same-library-twice"),
                (["testlib_2.1.0", "testlib_3.0.0"], "clashing-names-one-prefix"),
                (["tl:testlib_2.0.0", "tl:testlib_2.1.0"], "clashing-names-one-prefix"),
                ("testlib_2.0.0,testlib_2.1.0", "clashing-names-one-prefix"),
                (["8.2.0", "8.3.0"], "clashing-names-one-prefix")]
    for spec, kind in refusals:
        rec.n("evaluations")
        try:
            load_schema_version(spec)
            rec.violation("C13:refusal:" + kind + ":accepted", spec=spec)
        except HedFileError:
            rec.outcome("refused:" + kind)
        except Exception as e:
            rec.violation(f"C13:refusal:{kind}:wrong-exception:{type(e).__name__}", spec=spec, error=repr(e)[:200])
    # every ordered pair of bundled schemas under one prefix: refused whenever their XML files share a tag name (for two
    # libraries partnered with the same standard version only the library tags count)
    files = core.bundled_files()
    models = {(f[3:-4] if not f.startswith("HED_") else f[4:-4]): schema_model.load(os.path.join(core.SCHEMA_DATA, f))
              for f in files}

    def names(m, lib_only):
        return {t.name.casefold() for t in m.tags if not lib_only or "inLibrary" in t.attrs}
    for a, ma in models.items():
        for b, mb in models.items():
            same_partner = bool(ma.with_standard) and ma.with_standard == mb.with_standard
            clash = a == b or bool(names(ma, same_partner) & names(mb, same_partner))
            if not clash:
                continue
            for pre in ("", "x:"):
                rec.n("evaluations")
                rec.n("transitions")
                rec.n("distinct_nontrivial")
                spec = [pre + a, pre + b]
                try:
                    load_schema_version(spec)
                    rec.violation("C13:refusal:clashing-names-one-prefix:accepted:" +
                                  ("partnered-first" if ma.with_standard and not mb.with_standard else "other"), spec=spec)
                except HedFileError:
                    rec.outcome("refused:pair")
                except Exception as e:
                    rec.violation(f"C13:refusal:pair:wrong-exception:{type(e).__name__}", spec=spec, error=repr(e)[:200])
    # testlib 2.0.0 and 3.0.0 have disjoint library tags (checked from their XML): no clash, so the merge is legitimate
    for spec in (["testlib_2.0.0", "score_1.1.0"], "testlib_2.0.0,score_1.1.0", ["tl:testlib_2.0.0", "score_1.1.0"],
                 ["testlib_2.0.0", "testlib_3.0.0"]):
        rec.n("evaluations")
        try:
            load_schema_version(spec)
            rec.outcome("merge-accepted")
        except Exception as e:
            rec.violation("C13:legitimate-combination-refused:" + type(e).__name__, spec=spec, error=repr(e)[:200])


PREFIX_GOOD = ["s", "sc", "Tl", "abc", "Z"]
PREFIX_BAD = ["s1", "sc2", "sc_", "1s", "a1b", "s-c", "s c", "s.", "_"]
HIST_TEMPLATES = ["{0}Red", "({0}Event-context, ({0}Red)), ({0}Event-context, ({0}Blue))", "({0}Event-context, ({0}Red)), {0}Blue",
                  "{0}Zzqunknown", "({0}Red, {0}Red)", "{0}Item/Zzqext-1, ({0}Duration/3 s, ({0}Blue))"]


def prefix_checks(ctx):
    """Prefix boundary values through every way of giving a prefix, and E2 histories of prefix changes on one object."""
    from hed.schema import load_schema_version, load_schema
    from hed.schema.hed_schema_group import HedSchemaGroup
    from hed.errors.exceptions import HedFileError
    rec = ctx.rec
    lib_path = os.path.join(core.SCHEMA_DATA, "HED_score_1.1.0.xml")
    ways = {
        "version-list": lambda p: load_schema_version(["8.2.0", f"{p}:score_1.1.0"]),
        "version-string": lambda p: load_schema_version(f"{p}:score_1.1.0"),
        "load-file-no-colon": lambda p: load_schema(lib_path, schema_namespace=p),
        "load-file-colon": lambda p: load_schema(lib_path, schema_namespace=p + ":"),
        "set-prefix-no-colon": lambda p: load_schema(lib_path).set_schema_prefix(p),
        "set-prefix-colon": lambda p: load_schema(lib_path).set_schema_prefix(p + ":"),
    }
    for way, fn in ways.items():
        for p in PREFIX_GOOD + PREFIX_BAD:
            rec.n("evaluations")
            rec.n("transitions")
            rec.n("distinct_nontrivial")
            good = p in PREFIX_GOOD
            try:
                fn(p)
                if not good:
                    rec.violation("C13:prefix:non-alphabetic-prefix-accepted:" + way, prefix=p)
                rec.outcome("prefix-accepted")
            except HedFileError as e:
                if good:
                    rec.violation("C13:prefix:alphabetic-prefix-refused:" + way, prefix=p, error=repr(e)[:200])
                rec.outcome("prefix-refused")
            except Exception as e:
                rec.violation(f"C13:prefix:wrong-exception:{type(e).__name__}:{way}", prefix=p, error=repr(e)[:200])
    # histories on one schema object: validate / change the prefix, then the prefixed annotations must be judged like the
    # unprefixed ones by a freshly loaded copy
    std_path = os.path.join(core.SCHEMA_DATA, "HED8.2.0.xml")
    fresh = load_schema(std_path)
    want = {t: codes(fresh, t.format("")) for t in HIST_TEMPLATES}
    ops = ["validate", "prefix:tl", "prefix:sc", "prefix:", "group", "version-load"]
    depth = ctx.pick(3, 4)
    for d in range(1, depth + 1):
        for hist in itertools.product(ops, repeat=d):
            rec.n("evaluations")
            rec.n("transitions", d)
            rec.n("distinct_nontrivial")
            rec.state(("prefix-history", tuple(sorted(set(hist)))))
            try:
                S = load_schema(std_path)
                ns = ""
                for op in hist:
                    if op == "validate":
                        for t in HIST_TEMPLATES:
                            codes(S, t.format(ns))
                    elif op.startswith("prefix:"):
                        S.set_schema_prefix(op[7:])
                        ns = op[7:] + ":" if op[7:] else ""
                    elif op == "group":
                        if ns:
                            other = load_schema(lib_path, schema_namespace="zz" if ns != "zz:" else "yy")
                            G = HedSchemaGroup([S, other])
                            for t in HIST_TEMPLATES:
                                codes(G, t.format(ns))
                    elif op == "version-load":
                        # the cached standard schema is shared with later version loads: use it, then load a prefixed one
                        codes(load_schema_version("8.2.0"), HIST_TEMPLATES[1].format(""))
                        P = load_schema_version("tl:8.2.0")
                        got = {t: codes(P, t.format("tl:")) for t in HIST_TEMPLATES}
                        if got != want:
                            bad = next(t for t in HIST_TEMPLATES if got[t] != want[t])
                            rec.violation("C13:history:version-load-after-use-judges-differently", history=list(hist),
                                          text=bad.format("tl:"), alone=want[bad], prefixed=got[bad])
                got = {t: codes(S, t.format(ns)) for t in HIST_TEMPLATES}
                if ns:
                    # a single schema held under a prefix: the empty prefix is not loaded, an unprefixed tag is an error
                    for text in ("Red", f"{ns}Blue, Red", f"(Label/abc, {ns}Green)"):
                        if "TAG_NAMESPACE_PREFIX_INVALID" not in [c for c, _ in codes(S, text)]:
                            rec.violation("C13:history:unprefixed-tag-accepted-by-schema-held-under-a-prefix", history=list(hist),
                                          prefix=ns, text=text, codes=codes(S, text))
                            break
            except Exception as e:
                rec.violation("C13:history:raises:" + type(e).__name__, history=list(hist), error=repr(e)[:200])
                continue
            if got != want:
                bad = next(t for t in HIST_TEMPLATES if got[t] != want[t])
                rec.violation("C13:history:prefixed-judged-differently-after-history", history=list(hist), prefix=ns,
                              text=bad.format(ns), alone=want[bad], prefixed=got[bad])
            rec.outcome("history-" + ("ok" if got == want else "differs"))
    # a single schema loaded under a prefix (no unprefixed member): unprefixed tags are errors, prefixed ones judged as alone
    for version in ("8.3.0", "8.2.0", "score_2.0.0", "testlib_2.0.0"):
        rec.n("evaluations")
        try:
            P, A = load_schema_version("sc:" + version), load_schema_version(version)
            for t in HIST_TEMPLATES:
                if codes(P, t.format("sc:")) != codes(A, t.format("")):
                    rec.violation("C13:single-prefixed-schema:prefixed-judged-differently", version=version, text=t.format("sc:"),
                                  alone=codes(A, t.format("")), prefixed=codes(P, t.format("sc:")))
            # definitions under the prefix: expanding and shrinking keep every tag in the prefixed schema
            from hed.models.definition_dict import DefinitionDict
            from hed.models.hed_string import HedString
            from props.c09 import add_prefix
            plain_defs = ["(Definition/MyDef, (Red, Blue))", "(Definition/Val/#, (Label/#, Green))"]
            for plain in ("Def/MyDef, Square", "(Def/Val/5, Onset)", "(Def/MyDef, (Def/Val/x, Circle))"):
                da = DefinitionDict(plain_defs, A)
                dp = DefinitionDict([add_prefix(d, "sc:") for d in plain_defs], P)
                ha, hp = HedString(plain, A, da), HedString(add_prefix(plain, "sc:"), P, dp)
                steps = []
                for op in ("expand", "shrink", "expand"):
                    getattr(ha, op + "_defs")()
                    getattr(hp, op + "_defs")()
                    steps.append(op)
                    va = sorted(i["code"] for i in ha.validate(allow_placeholders=False))
                    vp = sorted(i["code"] for i in hp.validate(allow_placeholders=False))
                    if str(hp) != add_prefix(str(ha), "sc:") or va != vp:
                        rec.violation("C13:single-prefixed-schema:definitions-expand-or-shrink-differently", version=version,
                                      history=list(steps), alone=str(ha), prefixed=str(hp), codes_alone=va, codes_prefixed=vp)
                        break
            for text in ("Red", "sc:Blue, Red", "(Label/abc, sc:Green)", "Event"):
                if "TAG_NAMESPACE_PREFIX_INVALID" not in [c for c, _ in codes(P, text)]:
                    rec.violation("C13:single-prefixed-schema:unprefixed-tag-accepted", version=version, text=text,
                                  codes=codes(P, text))
        except Exception as e:
            rec.violation("C13:single-prefixed-schema:raises:" + type(e).__name__, version=version, error=repr(e)[:200])
    # the same library named twice - in one comma-separated entry, with and without a prefix, next to another library
    for spec in ("testlib_2.0.0,testlib_2.0.0", "tl:testlib_2.0.0,testlib_2.0.0", ["8.2.0", "sc:score_1.1.0,score_1.1.0"],
                 "score_1.1.0,testlib_2.0.0,score_1.1.0", ["score_1.1.0", "score_1.1.0"], '["8.2.0", "sc:score_1.1.0,score_1.1.0"]'):
        rec.n("evaluations")
        rec.n("distinct_nontrivial")
        try:
            load_schema_version(spec)
            rec.violation("C13:refusal:same-library-twice-accepted", versions=repr(spec))
        except HedFileError:
            rec.outcome("same-library-twice-refused")
        except Exception as e:
            rec.violation("C13:refusal:same-library-twice:wrong-exception:" + type(e).__name__, versions=repr(spec),
                          error=repr(e)[:200])
    # a group built from schema objects: two members under one prefix are refused - also when they are the same object
    # (version loads are cached, so naming a version twice gives the same object twice) or equal objects loaded apart
    from hed.schema.hed_schema_group import HedSchemaGroup
    from hed.schema import load_schema as _load_file
    for label, make in (("same-object-twice:prefixed", lambda: [load_schema_version(v) for v in ("8.2.0", "sc:score_1.1.0", "sc:score_1.1.0")]),
                        ("same-object-twice:unprefixed", lambda: [load_schema_version(v) for v in ("8.2.0", "8.2.0")]),
                        ("same-object-twice:only", lambda: [load_schema_version("sc:score_1.1.0")] * 2),
                        ("equal-objects", lambda: [_load_file(os.path.join(core.SCHEMA_DATA, "HED_score_1.1.0.xml"), schema_namespace="sc:")
                                                   for _ in range(2)]),
                        ("different-versions", lambda: [load_schema_version(v) for v in ("sc:score_1.1.0", "sc:score_1.0.0")])):
        rec.n("evaluations")
        rec.n("distinct_nontrivial")
        try:
            HedSchemaGroup(make())
            rec.violation("C13:refusal:group-of-objects:two-members-under-one-prefix-accepted", members=label)
        except HedFileError:
            rec.outcome("group-of-objects-refused")
        except Exception as e:
            rec.violation("C13:refusal:group-of-objects:wrong-exception:" + type(e).__name__, members=label, error=repr(e)[:200])
    # several libraries under one prefix, loaded from a folder that holds only the first one's file (the others are found
    # after the folder is completed from the installation): the same schema, or the same refusal, as from a complete cache
    import shutil
    import tempfile
    for first, second in (("score_1.1.0", "testlib_2.0.0"), ("testlib_2.0.0", "score_1.1.0"), ("testlib_2.0.0", "testlib_2.1.0"),
                          ("testlib_2.1.0", "testlib_3.0.0")):
        for prefix in ("lb:", ""):
            rec.n("evaluations")
            rec.n("distinct_nontrivial")
            spec = f"{prefix}{first},{second}"

            def outcome(**kw):
                try:
                    S = load_schema_version(spec, **kw)
                    return ("loaded", len(S.tags.all_names), sorted(S.tags.all_names)[:3], S.version)
                except HedFileError as e:
                    return ("refused", e.code)
            folder = tempfile.mkdtemp(dir="/dev/shm", prefix="verif-c13-")
            try:
                shutil.copy(os.path.join(core.SCHEMA_DATA, fname(first)), folder)
                partial = outcome(xml_folder=folder)
                complete = outcome()
                if partial != complete:
                    rec.violation("C13:partial-cache-folder:several-libraries-under-one-prefix-load-differently", versions=spec,
                                  from_complete_cache=complete, from_folder_holding_only_the_first=partial)
                rec.outcome("partial-folder:" + complete[0])
            except Exception as e:
                rec.violation("C13:partial-cache-folder:raises:" + type(e).__name__, versions=spec, error=repr(e)[:200])
            finally:
                shutil.rmtree(folder, ignore_errors=True)
    # two generated libraries (same partner) under one prefix whose tags differ: refused exactly when another kind of name
    # clashes - here a unit class both define (with different units); fine under two prefixes or with different class names
    LIB = """<?xml version="1.0" ?>
<HED version="1.0.0" library="{lib}" withStandard="8.2.0" unmerged="True">
   <prologue>Small generated library {lib}.</prologue>
   <schema>
      <node><name>{tag}</name>
         <node><name>#</name>
            <attribute><name>takesValue</name></attribute>
            <attribute><name>valueClass</name><value>numericClass</value></attribute>
            <attribute><name>unitClass</name><value>{uclass}</value></attribute>
         </node>
      </node>
   </schema>
   <unitClassDefinitions>
      <unitClassDefinition><name>{uclass}</name>
         <attribute><name>defaultUnits</name><value>{unit}</value></attribute>
         <unit><name>{unit}</name><attribute><name>SIUnit</name></attribute></unit>
      </unitClassDefinition>
   </unitClassDefinitions>
   <unitModifierDefinitions/>
   <valueClassDefinitions/>
   <schemaAttributeDefinitions/>
   <propertyDefinitions/>
</HED>
"""
    for kind, cls_a, cls_b, must_refuse in (("same-unit-class-name", "pressureUnits", "pressureUnits", True),
                                            ("different-unit-class-names", "pressureUnits", "stressUnits", False)):
        folder = tempfile.mkdtemp(dir="/dev/shm", prefix="verif-c13g-")
        rec.n("evaluations")
        rec.n("distinct_nontrivial")
        try:
            shutil.copy(os.path.join(core.SCHEMA_DATA, "HED8.2.0.xml"), folder)
            with open(os.path.join(folder, "HED_alphalib_1.0.0.xml"), "w") as f:
                f.write(LIB.format(lib="alphalib", tag="Alpha-sound", unit="pascal", uclass=cls_a))
            with open(os.path.join(folder, "HED_betalib_1.0.0.xml"), "w") as f:
                f.write(LIB.format(lib="betalib", tag="Beta-sound", unit="bar", uclass=cls_b))
            for spec in ("alphalib_1.0.0,betalib_1.0.0", "lb:alphalib_1.0.0,betalib_1.0.0", ["alphalib_1.0.0", "betalib_1.0.0"]):
                try:
                    load_schema_version(spec, xml_folder=folder)
                    refused = False
                except HedFileError:
                    refused = True
                if refused != must_refuse:
                    rec.violation("C13:generated-libraries:" + kind + (":accepted" if must_refuse else ":refused"), versions=repr(spec))
            # under two prefixes both load, and each prefix keeps its own units
            G = load_schema_version(["a:alphalib_1.0.0", "b:betalib_1.0.0"], xml_folder=folder)
            for text, ok in (("a:Alpha-sound/3 pascal", True), ("b:Beta-sound/3 bar", True), ("a:Alpha-sound/3 bar", False),
                             ("b:Beta-sound/3 pascal", False)):
                errs = [c for c, sev in codes(G, text) if sev == ERR]
                if (not errs) != ok:
                    rec.violation("C13:generated-libraries:units-of-the-other-library", kind=kind, text=text, codes=errs)
            rec.outcome("generated-libraries:" + kind)
        except Exception as e:
            rec.violation("C13:generated-libraries:raises:" + type(e).__name__, kind=kind, error=repr(e)[:300])
        finally:
            shutil.rmtree(folder, ignore_errors=True)
    # an unmerged partnered library is built on the (cached, possibly used) standard schema: same verdicts under a prefix
    for lib in ("testlib_2.0.0", "score_1.1.0"):
        rec.n("evaluations")
        try:
            codes(load_schema_version("8.2.0"), HIST_TEMPLATES[1].format(""))
            alone_lib = load_schema_version(lib)
            G = load_schema_version(["8.2.0", "tl:" + lib])
            for t in HIST_TEMPLATES:
                a, b = codes(alone_lib, t.format("")), codes(G, t.format("tl:"))
                if a != b:
                    rec.violation("C13:history:library-on-used-standard-judges-differently", library=lib, text=t.format("tl:"),
                                  alone=a, prefixed=b)
        except Exception as e:
            rec.violation("C13:history:raises:" + type(e).__name__, library=lib, error=repr(e)[:200])


def run(ctx):
    members, configs, alone = build(ctx.thorough)
    ctx.rec.notes["bounds"] = {"configs": [c[0] for c in configs],
                               "annotations_per_member": {v: len(m.trees) for v, m in members.items()}}
    for spec, group, parts in configs:
        if group is None:
            ctx.rec.violation("C13:pairing-not-loadable", spec=spec, error=parts)
    ctx.parallel(worker, members, configs, alone, ctx.thorough, ctx.seed)
    structural_checks(ctx, members, alone)
    prefix_checks(ctx)
    ctx.rec.counts["states"] = len(ctx.rec.states)


def replay(ctx, case):
    from hed.schema import load_schema_version
    if "group" not in case or "text" not in case:
        return []
    group = load_schema_version(case["group"])
    got = codes(group, case["text"])
    out = [("C13:replay:codes", {"text": case["text"], "in_group": got})]
    return out if list(map(list, got)) == [list(x) for x in case.get("in_group", [])] else []
