"""C10 - Onset/Offset/Inset bookkeeping follows the event history exactly.

Engine E2 (explicit-state exploration over event histories):
  narrow seam   - OnsetValidator.validate_temporal_relations fed one real HedString per time point; every history up to
                  the bound is replayed on a fresh validator; after every transition the issues (which marker groups are
                  flagged) and the open-scope set must equal the reference machine (a set of case-folded names).
  end-to-end    - TabularInput.validate on files realising the same histories (one row / equal-onset rows / Delay shifted).
"""
import itertools
import os

from mc import core

ID = "C10"
LEVEL = "model_checking"
RULE = ("events = {Onset, Offset, Inset} x names {A, a, B/x, B/X, B/y} (3 scopes after case folding); narrow seam: all "
        "histories of single-marker time points to length L1 and all histories over the 240 one-or-two-marker time points to "
        "length L2 (+ one single-marker step); end-to-end: all histories to length L3 x all realisations of each time point "
        "(one row, equal-onset rows, Delay-shifted row, mixed).  state = reference open-scope set (8 states); transition = "
        "one time point executed on the real validator; non-trivial = history with at least one reported marker")
ASSUMPTIONS = [
    "a 'name' is the full Def name including its value, compared case-insensitively (as the statement says)",
    "within one time point markers take effect in text / row order; realisations whose order is unspecified (a Delay-shifted "
    "group landing on a row of the same time) are only generated for markers with different names",
    "end-to-end issues must be labelled with a file row that contributes to the offending time point",
]

MARKS = ["Onset", "Offset", "Inset"]
NAMES = ["A", "a", "B/x", "B/X", "B/y"]
DEFS = ["(Definition/A, (Red))", "(Definition/B/#, (Label/#))", "(Definition/Stra\u00dfe, (Green))"]
SINGLES = [(m, n) for m in MARKS for n in NAMES]


def declared_factor(symbol):
    """The conversion factor written in HED8.3.0.xml for a unit modifier (read from the file, not through the library)."""
    import xml.etree.ElementTree as ET
    root = ET.parse(os.path.join(core.SCHEMA_DATA, "HED8.3.0.xml")).getroot()
    for d in root.iter("unitModifierDefinition"):
        if d.findtext("name") == symbol:
            for a in d.findall("attribute"):
                if a.findtext("name") == "conversionFactor":
                    return float(a.findtext("value").replace("^", "e"))
    raise KeyError(symbol)


MEGA = declared_factor("M")


def group_text(ev, delay=None, delay_tag="Delay"):
    m, n = ev
    if delay:
        return f"(Def/{n}, {m}, {delay_tag}/{delay})"
    return f"(Def/{n}, {m})"


class RefMachine:
    def __init__(self):
        self.open = set()

    def step(self, markers):
        """markers: list of (mark, name) -> list of flagged indices with kind."""
        flagged = []
        used = set()
        for i, (m, n) in enumerate(markers):
            k = n.casefold()
            if k in used:
                flagged.append((i, "same-name-twice"))
                continue
            used.add(k)
            if m == "Onset":
                self.open.add(k)
            elif k not in self.open:
                flagged.append((i, "unmatched-" + m.lower()))
            elif m == "Offset":
                self.open.discard(k)
        return flagged


def timepoints(two=True):
    tps = [(e,) for e in SINGLES]
    if two:
        tps += [(a, b) for a in SINGLES for b in SINGLES]
    return tps


class Narrow:
    def __init__(self):
        from hed import load_schema_version
        from hed.models.hed_string import HedString
        from hed.models.definition_dict import DefinitionDict
        self.schema = load_schema_version("8.3.0")
        self.dd = DefinitionDict(DEFS, self.schema)
        assert not self.dd.issues, self.dd.issues
        self.HedString = HedString
        self.cache = {}

    def hs(self, tp):
        s = self.cache.get(tp)
        if s is None:
            text = ", ".join(group_text(e) for e in tp)
            s = (self.HedString(text, self.schema, self.dd), text)
            self.cache[tp] = s
        return s

    def flagged(self, hs, issues):
        """Map each issue back to the index of the marker group it names."""
        groups = hs.groups()
        out = []
        for iss in issues:
            tag = iss.get("source_tag")
            idx = None
            for gi, g in enumerate(groups):
                if any(t is tag for t in g.get_all_tags()):
                    idx = gi
                    break
            msg = iss.get("message", "")
            kind = ("same-name-twice" if "already used" in msg else
                    "unmatched-offset" if msg.startswith("Offset") else
                    "unmatched-inset" if msg.startswith("Inset") else "other")
            out.append((idx, kind, iss.get("code")))
        return out


def run_history(nw, rec, hist, check_state=True):
    """Replay hist (tuple of time points) on a fresh validator; compare every step with the reference."""
    from hed.validator.onset_validator import OnsetValidator
    ov = OnsetValidator()
    ref = RefMachine()
    any_flag = False
    for step, tp in enumerate(hist):
        hs, text = nw.hs(tp)
        want = ref.step(list(tp))
        try:
            issues = ov.validate_temporal_relations(hs)
        except Exception as e:
            rec.violation("C10:narrow:raises:" + type(e).__name__, history=hist_repr(hist[:step + 1]), error=repr(e)[:200])
            return
        got = nw.flagged(hs, issues)
        rec.n("transitions")
        if want:
            any_flag = True
        if sorted(i for i, _ in want) != sorted(i for i, _, _ in got) or any(c != "TEMPORAL_TAG_ERROR" for _, _, c in got):
            rec.violation(narrow_fp(want, got), history=hist_repr(hist[:step + 1]), step=step, timepoint=text,
                          expected_flagged=want, got_flagged=got)
            return
        rec.outcome("step:" + ",".join(sorted(k for _, k in want)) if want else "step:clean")
        if check_state and hasattr(ov, "_onsets"):
            real = {str(k).casefold() for k in ov._onsets}
            if real != ref.open:
                rec.violation("C10:narrow:open-scope-set-differs", history=hist_repr(hist[:step + 1]), step=step,
                              expected_open=sorted(ref.open), got_open=sorted(real))
                return
        rec.state(frozenset(ref.open))
    rec.n("evaluations")
    if any_flag:
        rec.n("distinct_nontrivial")


def narrow_fp(want, got):
    wk = sorted(k for _, k in want)
    gk = sorted(k for _, k, _ in got)
    return f"C10:narrow:expected[{','.join(wk) or 'none'}]:got[{','.join(gk) or 'none'}]"


def hist_repr(hist):
    return [", ".join(group_text(e) for e in tp) for tp in hist]


def worker_narrow(rec, shard, nshards, l1, l2, seed):
    nw = Narrow()
    singles = [(e,) for e in SINGLES]
    # (a) all histories of single-marker time points up to length l1 (only maximal ones need replaying: every prefix is
    #     checked along the way), sharded by index
    total = len(singles) ** l1
    for idx in core.shard_order(total, shard, nshards, seed):
        hist = []
        x = idx
        for _ in range(l1):
            hist.append(singles[x % len(singles)])
            x //= len(singles)
        run_history(nw, rec, tuple(hist))
        if idx % 50021 == 3:
            rec.sample({"seam": "narrow", "history": hist_repr(hist)})
    # (b) all histories over the 240 time points up to length l2, followed by every single-marker time point
    tps = timepoints()
    total = len(tps) ** l2
    for idx in core.shard_order(total, shard, nshards, seed):
        hist = []
        x = idx
        for _ in range(l2):
            hist.append(tps[x % len(tps)])
            x //= len(tps)
        for last in singles:
            run_history(nw, rec, tuple(hist) + (last,))
        if idx % 9001 == 3:
            rec.sample({"seam": "narrow", "history": hist_repr(hist)})


# ---------------------------------------------------------------------------------------------------
# end-to-end realisations

def realisations(tp, t, full=True):
    """Yield lists of rows (onset, hed) realising time point tp at time t; rows for time t-0.5 may be used for Delay."""
    texts = [group_text(e) for e in tp]
    yield "one-row", [(t, ", ".join(texts))]
    if len(tp) == 2:
        yield "equal-onset-rows", [(t, texts[0]), (t, texts[1])]
    yield "delay-shifted", [(t - 0.5, ", ".join(group_text(e, "0.5 s") for e in tp))]
    yield "delay-shifted-ms", [(t - 0.25, ", ".join(group_text(e, "250 ms") for e in tp))]
    # the tag name in another letter case (tag names are case-insensitive)
    if len(tp) == 1:
        yield "delay-shifted-case", [(t - 0.5, group_text(tp[0], "0.5 s", "DELAY" if tp[0][0] == "Onset" else "delay"))]
        if not full:
            return          # the realisations below only for histories of up to two time points
        # a unit symbol with an upper-case prefix that also exists in lower case (Ms is not ms); the number is 0.5 s divided by
        # the factor the schema file declares for the prefix
        yield "delay-shifted-prefix", [(t - 0.5, group_text(tp[0], f"{0.5 / MEGA!r} Ms"))]
        if t >= 4.0:
            # the delayed group is written before the previous time point and lands after it
            yield "delay-crossing", [(t - 2.5, group_text(tp[0], "2.5 s"))]
            yield "delay-crossing-prefix", [(t - 2.5, group_text(tp[0], f"{2.5 / MEGA!r} Ms"))]
    if len(tp) == 2 and tp[0][1].casefold() != tp[1][1].casefold():
        yield "mixed-delay-second", [(t - 0.5, group_text(tp[1], "0.5 s")), (t, texts[0])]
        yield "mixed-delay-first", [(t - 0.5, group_text(tp[0], "0.5 s")), (t, texts[1])]


def worker_e2e(rec, shard, nshards, length, two_marker_tps, all_positions, seed):
    import pandas as pd
    from hed import load_schema_version
    from hed.models.tabular_input import TabularInput
    from hed.models.definition_dict import DefinitionDict
    schema = load_schema_version("8.3.0")
    dd = DefinitionDict(DEFS, schema)
    # two identical markers for one name in one time point are a repeated group at string level (C01/C04), not C10
    two_marker_tps = [tp for tp in two_marker_tps
                      if not (tp[0][0] == tp[1][0] and tp[0][1].casefold() == tp[1][1].casefold())]
    tps = [(e,) for e in SINGLES] + two_marker_tps
    hists = []
    for L in range(1, length + 1):
        hists += list(itertools.product(tps, repeat=L))
    for hi in core.shard_order(len(hists), shard, nshards, seed):
        hist = hists[hi]
        per_tp = [list(realisations(tp, 2.0 * (k + 1), full=len(hist) <= 2)) for k, tp in enumerate(hist)]
        for combo in itertools.product(*per_tp):
            rows = []
            tp_rows = []   # for each time point the set of file row indices contributing
            for kind, rws in combo:
                idxs = []
                for r in rws:
                    idxs.append(len(rows))
                    rows.append(r)
                tp_rows.append(idxs)
            # file rows must be in onset order: sort stably and remember where each row went
            order = sorted(range(len(rows)), key=lambda i: rows[i][0])
            pos = {old: new for new, old in enumerate(order)}
            srows = [rows[i] for i in order]
            df = pd.DataFrame({"onset": [str(r[0]) for r in srows], "HED": [r[1] for r in srows]})
            ref = RefMachine()
            want = []      # (count, allowed file rows)
            for tp, idxs in zip(hist, tp_rows):
                fl = ref.step(list(tp))
                want.append((len(fl), {pos[i] + 2 for i in idxs}))
            rec.n("evaluations")
            rec.n("transitions", len(hist))
            if any(c for c, _ in want):
                rec.n("distinct_nontrivial")
            try:
                issues = TabularInput(df).validate(schema, extra_def_dicts=dd)
            except Exception as e:
                rec.violation("C10:e2e:raises:" + type(e).__name__, rows=srows, error=repr(e)[:300])
                continue
            temporal = [i for i in issues if i.get("code") == "TEMPORAL_TAG_ERROR"]
            other = [i for i in issues if i.get("severity") == 1 and i.get("code") != "TEMPORAL_TAG_ERROR"]
            if other:
                rec.violation("C10:e2e:unexpected-error:" + other[0]["code"], rows=srows,
                              codes=[i["code"] for i in other])
                continue
            got_rows = sorted(i.get("ec_row") for i in temporal)
            # assign every reported issue to a time point whose rows contain its label
            ok = len(temporal) == sum(c for c, _ in want)
            if ok:
                remaining = list(got_rows)
                for c, allowed in want:
                    for _ in range(c):
                        hit = next((r for r in remaining if r in allowed), None)
                        if hit is None:
                            ok = False
                            break
                        remaining.remove(hit)
                ok = ok and not remaining
            kinds = "+".join(k for k, _ in combo)
            rec.outcome(f"e2e:{sum(c for c, _ in want)}")
            if not ok:
                rec.violation(f"C10:e2e:{worst_kind(combo)}:expected {sum(c for c, _ in want)} got {len(temporal)}",
                              rows=srows, realisation=kinds, expected=[(c, sorted(a)) for c, a in want],
                              got_rows=got_rows, messages=[i.get("message", "")[:80] for i in temporal])
            # bystander: a row that fails its own validation and carries no marker, inserted anywhere, changes nothing for
            # the other rows (whether or not a failed row takes part in the bookkeeping - it has nothing to contribute)
            if ok and len(hist) <= 2 and any("delay" in k for k, _ in combo):
                # quick: after the last row, and before the first one *at the first row's own onset* (a failed row that
                # leads a group of rows sharing an onset)
                positions = range(len(srows) + 1) if all_positions else (0, len(srows))
                for p, btext in [(p, b) for p in positions for b in (("Zzqnonsense", "Red") if all_positions else ("Zzqnonsense",))]:
                    t_ins = (float(srows[p][0]) if p < len(srows) else float(srows[-1][0]) + 1.0)
                    brows = srows[:p] + [(t_ins, btext)] + srows[p:]
                    bdf = pd.DataFrame({"onset": [str(r[0]) for r in brows], "HED": [r[1] for r in brows]})
                    rec.n("evaluations")
                    rec.n("transitions", len(hist))
                    rec.n("distinct_nontrivial")
                    try:
                        bissues = TabularInput(bdf).validate(schema, extra_def_dicts=dd)
                    except Exception as e:
                        rec.violation("C10:e2e:raises:" + type(e).__name__, rows=brows, error=repr(e)[:300])
                        continue
                    bt = sorted(i.get("ec_row") for i in bissues if i.get("code") == "TEMPORAL_TAG_ERROR")
                    shifted = sorted(r + 1 if r - 2 >= p else r for r in got_rows)
                    # rows of one time point are interchangeable as the label of its issues: compare per time point
                    tp_of = {pos[i] + 2: k for k, idxs in enumerate(tp_rows) for i in idxs}
                    back = lambda r: tp_of.get(r - 1 if r - 2 > p else r, "bystander" if r - 2 == p else None)
                    if sorted(str(back(r)) for r in bt) != sorted(str(tp_of.get(r)) for r in got_rows):
                        rec.violation("C10:e2e:failed-bystander-row-changes-bookkeeping", rows=brows, inserted_at=p,
                                      without=got_rows, expected=shifted, got_rows=bt)
                        break
        if hi % 211 == 0:
            rec.sample({"seam": "end-to-end", "history": hist_repr(hist)})


REUSE_FILES = {
    "open-A": [("1.0", "(Def/A, Onset)"), ("2.0", "Red")],
    "offset-A": [("1.0", "Red"), ("2.0", "(Def/A, Offset)")],
    "inset-A": [("1.0", "(Def/a, Inset)")],
    "open-Bx": [("1.0", "(Def/B/x, Onset)")],
    "offset-Bx": [("1.0", "(Def/B/X, Offset)")],
    "closed-A": [("1.0", "(Def/A, Onset)"), ("2.0", "(Def/A, Offset)")],
    "no-onset-column": [(None, "Red"), (None, "Blue")],
}


def validator_reuse(ctx, depth):
    """E2: every sequence of files up to depth through ONE SpreadsheetValidator: each file is judged as by a fresh validator
    (scopes left open by one file are not open in the next)."""
    import pandas as pd
    from hed import load_schema_version
    from hed.models.tabular_input import TabularInput
    from hed.models.definition_dict import DefinitionDict
    from hed.validator.spreadsheet_validator import SpreadsheetValidator
    rec = ctx.rec
    schema = load_schema_version("8.3.0")
    dd = DefinitionDict(DEFS, schema)

    def data(name):
        rows = REUSE_FILES[name]
        cols = {"HED": [r[1] for r in rows]}
        if rows[0][0] is not None:
            cols = {"onset": [r[0] for r in rows], "HED": [r[1] for r in rows]}
        return TabularInput(pd.DataFrame(cols))

    def verdict(v, name):
        return sorted((i["code"], i.get("ec_row")) for i in v.validate(data(name), def_dicts=dd, name=name))
    fresh = {n: verdict(SpreadsheetValidator(schema), n) for n in REUSE_FILES}
    names = list(REUSE_FILES)
    for d in range(2, depth + 1):
        for seq in itertools.product(names, repeat=d):
            rec.n("evaluations")
            rec.n("transitions", d)
            rec.n("distinct_nontrivial")
            v = SpreadsheetValidator(schema)
            for step, n in enumerate(seq):
                try:
                    got = verdict(v, n)
                except Exception as e:
                    rec.violation("C10:reuse:raises:" + type(e).__name__, sequence=list(seq), step=step, error=repr(e)[:200])
                    break
                if got != fresh[n]:
                    rec.violation("C10:reuse:verdict-depends-on-files-validated-before", sequence=list(seq), step=step,
                                  file=REUSE_FILES[n], fresh=fresh[n], got=got)
                    break
            rec.outcome("reuse")


def special_files(ctx):
    """Files outside the generated realisations: rows of equal onset with character-identical text, and marker rows that
    draw a warning, validated with warnings on and off: the temporal issues are those of the reference machine."""
    import pandas as pd
    from hed import load_schema_version
    from hed.models.tabular_input import TabularInput
    from hed.models.definition_dict import DefinitionDict
    from hed.errors.error_reporter import ErrorHandler
    rec = ctx.rec
    schema = load_schema_version("8.3.0")
    dd = DefinitionDict(DEFS, schema)
    files = []
    # identical texts at one time: time points as lists of (mark, name); rows given per time point
    for first in (("Onset", "A"), ("Offset", "A"), ("Inset", "A")):
        for rep in (("Offset", "A"), ("Onset", "A"), ("Inset", "A")):
            for n in (2, 3):
                files.append(([[(1.0, group_text(first))], [(2.0, group_text(rep))] * n], [[first], [rep] * n], "identical-rows"))
                files.append(([[(1.0, group_text(first))], [(2.0, group_text(rep))] * (n - 1) + [(1.5, group_text(rep, "0.5 s"))]],
                              [[first], [rep] * n], "identical-row-and-delayed-group"))
    # the same delayed marker twice in one row (identical, or differing in the letter case of the name): both copies leave the
    # row; a marker of that name between the row and the shifted time sees neither
    for mark in ("Onset", "Offset"):
        for second in ("A", "a"):
            doubled = f"(Def/A, {mark}, Delay/2 s), (Def/{second}, {mark}, Delay/2 s)"
            before = [] if mark == "Onset" else [[("Onset", "A")]]
            before_rows = [] if mark == "Onset" else [[(0.5, group_text(("Onset", "A")))]]
            files.append((before_rows + [[(2.0, group_text(("Inset", "A")))], [(1.0, doubled)]],
                          before + [[("Inset", "A")], [(mark, "A"), (mark, second)]], "doubled-delayed-marker"))
    # large onsets (seconds since 1970): rows an eighth of a second apart are different time points
    T0 = 1700000000.0
    for gap in (0.125, 0.001):
        files.append(([[(T0, group_text(("Onset", "A")))], [(T0 + gap, group_text(("Offset", "A")))],
                       [(T0 + 2 * gap, group_text(("Inset", "A")))]],
                      [[("Onset", "A")], [("Offset", "A")], [("Inset", "A")]], "large-onsets"))
        files.append(([[(T0, group_text(("Onset", "A"), "250 ms"))], [(T0 + 0.25 + gap, group_text(("Offset", "A")))],
                       [(T0 + 0.25 + 2 * gap, group_text(("Offset", "A")))]],
                      [[("Onset", "A")], [("Offset", "A")], [("Offset", "A")]], "large-onsets"))
    # rows 0.8 ns apart: the second joins the time point of the first, the third (1.6 ns after the first) starts a new one
    on_, off_ = ("Onset", "A"), ("Offset", "A")
    files.append(([[(5.0, group_text(on_)), (5.0000000008, group_text(off_))], [(5.0000000016, group_text(on_))],
                   [(7.0, group_text(off_))]], [[on_, off_], [on_], [off_]], "near-ties"))
    files.append(([[(5.0, group_text(on_))], [(5.0000000016, group_text(off_)), (5.0000000024, group_text(("Inset", "A")))],
                   [(7.0, group_text(off_))]], [[on_], [off_, ("Inset", "A")], [off_]], "near-ties"))
    # a definition name whose lower-case form and case-folded form differ
    for spelling in ("Stra\u00dfe", "STRASSE", "stra\u00dfe"):
        files.append(([[(1.0, group_text(("Onset", "Stra\u00dfe")))], [(2.0, group_text(("Inset", spelling)))],
                       [(3.0, group_text(("Offset", spelling)))], [(4.0, group_text(("Offset", "Stra\u00dfe")))]],
                      [[("Onset", "Stra\u00dfe")], [("Inset", spelling)], [("Offset", spelling)], [("Offset", "Stra\u00dfe")]],
                      "non-ascii-name"))
    # marker rows that draw a warning only (extension, missing unit)
    for extra in ("Item/Gizmo", "Label/Abc", "(Item/Gizmo, Blue)"):
        for tail_ in (("Offset", "A"), ("Inset", "A")):
            files.append(([[(1.0, f"(Def/A, Onset), {extra}")], [(2.0, group_text(tail_))]], [[("Onset", "A")], [tail_]],
                          "warning-rows"))
            files.append(([[(1.0, f"(Def/A, Onset, ({extra.strip('()')}))")], [(2.0, group_text(tail_))]],
                          [[("Onset", "A")], [tail_]], "warning-rows"))
    for tps_rows, tps_marks, kind in files:
        rows = sorted([r for tp in tps_rows for r in tp], key=lambda r: r[0])
        ref = RefMachine()
        want = sum(len(ref.step(list(m))) for m in tps_marks)
        df = pd.DataFrame({"onset": [str(r[0]) for r in rows], "HED": [r[1] for r in rows]})
        for warn in (False, True):
            rec.n("evaluations")
            rec.n("transitions", len(rows))
            rec.n("distinct_nontrivial")
            try:
                issues = TabularInput(df).validate(schema, extra_def_dicts=dd, error_handler=ErrorHandler(check_for_warnings=warn))
            except Exception as e:
                rec.violation("C10:special:raises:" + type(e).__name__, rows=rows, error=repr(e)[:200])
                continue
            other = [i["code"] for i in issues if i["severity"] == 1 and i["code"] not in ("TEMPORAL_TAG_ERROR",)]
            got = sum(1 for i in issues if i["code"] == "TEMPORAL_TAG_ERROR")
            if set(other) - {"TAG_EXPRESSION_REPEATED"}:
                rec.outcome("special:other-errors")
                continue
            # identical rows of one time point are also a repeated group of the merged annotation; the temporal
            # bookkeeping is reported next to that
            if got != want:
                rec.violation(f"C10:special:{kind}:expected {want} got {got}" + (":warnings-on" if warn else ""), rows=rows,
                              warnings=warn, messages=[i.get("message", "")[:80] for i in issues if i["code"] == "TEMPORAL_TAG_ERROR"])
            rec.outcome("special:" + kind)


UNSORTED_BASES = [
    [("1.0", "(Def/A, Onset)"), ("2.0", "Zzqnonsense, (Def/B/x, Onset)"), ("3.0", "(Def/A, Offset)"), ("4.0", "(Def/B/x, Offset)"),
     ("5.0", "(Def/A, Inset)")],
    [("1.0", "(Def/A, Onset)"), ("2.0", "(Def/B/x, Onset)"), ("3.0", "Zzqnonsense, (Def/A, Offset)"), ("4.0", "(Def/A, Inset)"),
     ("5.0", "(Def/B/x, Offset)")],
    [("1.0", "Zzqnonsense"), ("2.0", "(Def/A, Offset)"), ("3.0", "(Def/A, Onset)"), ("4.0", "(Def/A, Onset, Delay/0.5 s)")],
    # onsets whose order as text differs from their order as numbers (no Delay group in the file)
    [("3.0", "Red"), ("9.0", "(Def/A, Onset)"), ("10.0", "(Def/A, Offset)"), ("20.0", "(Def/A, Inset)"), ("100.0", "(Def/A, Onset)")],
]


def unsorted_files(ctx):
    """Files whose rows are not in time order, or hold rows without a time, and in which one row fails its own checks: the
    temporal issues, told by the row they name, are those of the same rows in time order (every file order of the rows)."""
    import pandas as pd
    from hed import load_schema_version
    from hed.models.tabular_input import TabularInput
    from hed.models.definition_dict import DefinitionDict
    rec = ctx.rec
    schema = load_schema_version("8.3.0")
    dd = DefinitionDict(DEFS, schema)

    def temporal(rows, ident):
        df = pd.DataFrame({"onset": [r[0] for r in rows], "HED": [r[1] for r in rows]})
        issues = TabularInput(df).validate(schema, extra_def_dicts=dd)
        return sorted((ident[i["ec_row"] - 2], i["message"].split(".")[0][:60]) for i in issues if i["code"] == "TEMPORAL_TAG_ERROR")
    for bi, base in enumerate(UNSORTED_BASES):
        n = len(base)
        try:
            want = temporal(base, list(range(n)))
        except Exception as e:
            rec.violation("C10:unsorted:raises:" + type(e).__name__, rows=base, error=repr(e)[:200])
            continue
        variants = [(list(perm), None) for perm in itertools.permutations(range(n))]
        # a row without a time ("Red", onset n/a) at every position of the file in time order and of its reverse
        for p in range(n + 1):
            variants.append((list(range(n)), p))
            variants.append((list(range(n))[::-1], p))
        for perm, na_at in variants:
            rows = [base[i] for i in perm]
            ident = list(perm)
            if na_at is not None:
                rows = rows[:na_at] + [("n/a", "Red")] + rows[na_at:]
                ident = ident[:na_at] + ["n/a-row"] + ident[na_at:]
            rec.n("evaluations")
            rec.n("transitions", len(rows))
            rec.n("distinct_nontrivial")
            rec.state(("unsorted", bi, na_at is not None, perm == sorted(perm)))
            try:
                got = temporal(rows, ident)
            except Exception as e:
                rec.violation("C10:unsorted:raises:" + type(e).__name__, rows=rows, error=repr(e)[:200])
                continue
            if got != want:
                rec.violation("C10:unsorted:file-order-changes-the-bookkeeping" + (":row-without-time" if na_at is not None else ""),
                              rows=rows, in_time_order=want, got=got)
            rec.outcome("unsorted:" + str(len(got)))


def worst_kind(combo):
    ks = [k for k, _ in combo]
    for k in ("mixed-delay-first", "mixed-delay-second", "delay-crossing-prefix", "delay-crossing", "delay-shifted-prefix", "delay-shifted-case", "delay-shifted-ms", "delay-shifted",
              "equal-onset-rows"):
        if k in ks:
            return k
    return "one-row"


def run(ctx):
    l1, l2 = ctx.pick((4, 1), (5, 2))
    l3 = ctx.pick(2, 3)
    two = [((m1, "A"), (m2, n2)) for m1 in MARKS for m2 in MARKS for n2 in ("a", "B/x")]
    if ctx.thorough:
        two = [((m1, n1), (m2, n2)) for m1 in MARKS for m2 in MARKS for n1 in ("A", "B/x") for n2 in ("a", "B/X", "B/y")]
    e2e_two = two if not ctx.thorough else two[:12]
    ctx.rec.notes["bounds"] = {"narrow_single_marker_history_length": l1, "narrow_240_alphabet_length": l2,
                               "e2e_history_length": l3, "e2e_two_marker_timepoints": len(e2e_two),
                               "names": NAMES, "marks": MARKS}
    ctx.parallel(worker_narrow, l1, l2, ctx.seed)
    ctx.parallel(worker_e2e, l3, e2e_two, ctx.thorough, ctx.seed)
    validator_reuse(ctx, ctx.pick(2, 3))
    special_files(ctx)
    unsorted_files(ctx)
    ctx.rec.counts["states"] = len(ctx.rec.states)


def replay(ctx, case):
    rec = core.Rec()
    if "history" in case:
        nw = Narrow()
        hist = []
        import re
        for tp_text in case["history"]:
            tp = tuple((m, n) for n, m in re.findall(r"\(Def/([^,]+), (\w+)\)", tp_text))
            hist.append(tp)
        run_history(nw, rec, tuple(hist))
    elif "rows" in case:
        import pandas as pd
        from hed import load_schema_version
        from hed.models.tabular_input import TabularInput
        from hed.models.definition_dict import DefinitionDict
        schema = load_schema_version("8.3.0")
        dd = DefinitionDict(DEFS, schema)
        df = pd.DataFrame({"onset": [str(r[0]) for r in case["rows"]], "HED": [r[1] for r in case["rows"]]})
        issues = TabularInput(df).validate(schema, extra_def_dicts=dd)
        got = sorted(i.get("ec_row") for i in issues if i.get("code") == "TEMPORAL_TAG_ERROR")
        if got != case.get("got_rows"):
            return []
        return [("C10:e2e:replayed", {"rows": case["rows"], "got_rows": got, "expected": case.get("expected")})]
    return [(fp, d) for fp, lst in rec.viol.items() for d in lst[:1]]
