"""C12 - every reported issue is well-formed and points at the offending text.

E1: the already enumerated inputs of C01 (strings), C08 (sidecars), C07 (tables) and C16 (datasets) at quick bounds are
    fed to every validation entry point with warnings on and off, with and without a context-carrying ErrorHandler.
E2: issues passed through context decoration 1-3 times; all permutations of small synthetic issue lists through sort_issues.
"""
import copy
import io
import itertools
import json
import os
import re

from mc import core
from props import c01

ID = "C12"
LEVEL = "model_checking"
RULE = ("strings: every vocabulary / structure / template case of C01 for schema 8.3.0 x {warnings on, off} x {no handler, "
        "handler carrying the string as context} x {placeholders on, off}; sidecars: the C08 fault and valid documents; "
        "tables: C07 families F1/F3 (3- and 4-column spreadsheets without onsets included); datasets: 24 C16 trees; decoration "
        "applied 1-3 times; sort_issues on every permutation of every list of <= 4 issues over a 3x3x3x3 context grid. "
        "state = (entry point, code, has offsets); transition = one validation; non-trivial = issue carrying offsets")
ASSUMPTIONS = [
    "an issue 'names a tag' through its source_tag field; the selected text must be that tag's original text or the sub-span "
    "given by index_in_tag / index_in_tag_end, and must occur in the message",
    "the location suffix is the text 'Problem spans string indexes'",
]

ERR = 1
SUFFIX = "Problem spans string indexes"


def wellformed(rec, issue, entry, text=None, where=None):
    where = where or {}
    ok = isinstance(issue, dict) and isinstance(issue.get("code"), str) and isinstance(issue.get("message"), str) \
        and isinstance(issue.get("severity"), int) and issue.get("code") and issue.get("message")
    if not ok:
        rec.violation(f"C12:{entry}:issue-lacks-code-message-or-severity", issue=repr(issue)[:300], **where)
        return
    n = issue["message"].count(SUFFIX)
    if n > 1:
        rec.violation(f"C12:{entry}:location-suffix-{n}-times", code=issue["code"], message=issue["message"][:300], **where)
    hs = issue.get("ec_HedString")
    src = text if text is not None else (hs.get_original_hed_string() if hasattr(hs, "get_original_hed_string") else None)
    if "char_index" in issue:
        ci, ce = issue["char_index"], issue.get("char_index_end")
        rec.n("distinct_nontrivial")
        if src is None:
            return
        if not (isinstance(ci, int) and isinstance(ce, int) and 0 <= ci <= ce <= len(src)):
            rec.violation(f"C12:{entry}:offsets-outside-text:{issue['code']}", ci=ci, ce=ce, source=src, **where)
            return
        tag = issue.get("source_tag")
        sel = src[ci:ce]
        if hasattr(tag, "org_tag") and hasattr(hs, "_get_org_span"):
            ts, te = hs._get_org_span(tag)
            if ts is not None and getattr(tag, "_tag", None) is None:
                if not (ts <= ci and ce <= te):
                    rec.violation(f"C12:{entry}:offsets-outside-named-tag:{issue['code']}", ci=ci, ce=ce, tag_span=(ts, te),
                                  source=src, **where)
                    return
                a = issue.get("index_in_tag", 0)
                b = issue.get("index_in_tag_end", None)
                want = tag.org_tag[a:b]
                if sel != want:
                    rec.violation(f"C12:{entry}:offsets-do-not-select-named-fragment:{issue['code']}", selected=sel,
                                  expected=want, source=src, **where)
                    return
        if sel and sel not in issue["message"]:
            rec.violation(f"C12:{entry}:selected-text-not-quoted-in-message:{issue['code']}", selected=sel,
                          message=issue["message"][:200], source=src, **where)
    rec.state((entry, issue["code"], "char_index" in issue))


def subset_check(rec, entry, with_w, without_w, where):
    key = lambda i: (i["code"], i["message"].split("  " + SUFFIX)[0], i.get("ec_row"), i.get("ec_column"),
                     i.get("ec_sidecarColumnName"), i.get("ec_sidecarKeyName"), str(i.get("ec_filename")))
    a = sorted((key(i) for i in with_w if i["severity"] == ERR), key=repr)
    b = sorted((key(i) for i in without_w), key=repr)
    if any(i["severity"] != ERR for i in without_w):
        rec.violation(f"C12:{entry}:warning-returned-with-warnings-off", **where)
    elif a != b:
        rec.violation(f"C12:{entry}:errors-only-is-not-the-error-subset", only_with_warnings=[x for x in a if x not in b][:4],
                      only_without=[x for x in b if x not in a][:4], **where)


def json_check(rec, entry, issues, where):
    from hed.errors.error_reporter import replace_tag_references, get_printable_issue_string, sort_issues
    codes = [i["code"] for i in issues]
    cp = [dict(i) for i in issues]
    try:
        text = get_printable_issue_string(cp, skip_filename=False)
        replace_tag_references(cp)
        json.dumps(cp)
    except Exception as e:
        rec.violation(f"C12:{entry}:not-json-serialisable:{type(e).__name__}", error=repr(e)[:200], **where)
        return
    if [i["code"] for i in cp] != codes:
        rec.violation(f"C12:{entry}:codes-changed-by-reference-replacement", **where)


# ---- strings ----------------------------------------------------------------------------------------------------

def string_cases(st):
    tags = [t for t in st.model.tags if not st.vocab.is_reserved(t) and t.name.casefold() not in st.model.dup_short]
    for t in tags[::3]:
        for kind, text, expected, phs in c01.vocab_cases(st, t):
            if ":ctx" in kind and not kind.endswith("ctx4"):
                continue
            yield text, phs
    for kind, text, expected, phs, shp in c01.structure_cases(st, 3, 2, 2)[::2]:
        yield text, phs
    for kind, text, expected, phs, shp in c01.structure_mutation_cases(st, 2, 2, 2):
        yield text, phs
    for kind, text, expected, phs, shp in c01.template_cases(st):
        yield text, phs
    for extra in ("x1:Red", "sc:Red, Blue", "Red,, Blue", "(Red, (Blue)", "Label/a$b, Red", "Red/Zzq/Blue", "Duration/3 zz, Blue",
                  "Item/Object/Zzq ext", "(Red, Red), Blue/#", "Def/Nope/3, Red", "Red , Zzqunknown , Blue",
                  # characters whose case folding is longer than themselves must not shift the offsets
                  "Item/Stra\u00dfe/Red, Blue", "Item/\ufb01x/Blue", "Stra\u00dfe", "Gla\u00df/Red", "Blue, (Pre\u00df/Red)",
                  "De\ufb01nition/Foo", "Sti\ufb00/Zzq/Red"):
        yield extra, (False, True)


PLANTED = ["Label/a$b", "(Red, Label/a$b)", "Blue, (Red, (Label/ab$))", "Def/Vt/a$b", "Red, Def/Vt/ab$", "(Def/Vt/$ab, Blue)",
           "(Def-expand/Vt/a$b, (Label/a$b, Blue))", "Red, (Def-expand/Vt/ab$, (Label/ab$, Blue)), Green",
           "Re$d", "Blue, (Gre$en)", "Green, Label/xy$",
           # a colon earlier in the same tag (clock times, unknown prefixes) must not shift the pointer
           "Item/ab:cd$", "Item/Started-12:30:15/x$y", "Foo:bar$", "Red, (Item/a:b:c$d, Blue)", "Item/$ab:cd"]


def planted_check(rec, st):
    """A single illegal character is planted at known positions: every character issue must select exactly a planted '$'."""
    from hed.models.hed_string import HedString
    from hed.errors.error_reporter import ErrorHandler
    from hed.errors.error_types import ErrorContext
    from hed.models.definition_dict import DefinitionDict
    from hed.validator import HedValidator
    dd = DefinitionDict(["(Definition/Vt/#, (Label/#, Blue))"], st.schema)
    validator = HedValidator(st.schema, def_dicts=dd)
    for text in PLANTED:
        hs = HedString(text, st.schema, dd)
        eh = ErrorHandler()
        eh.push_error_context(ErrorContext.HED_STRING, hs)
        try:
            issues = validator.validate(hs, allow_placeholders=False, error_handler=eh)
        except Exception as e:
            rec.violation("C12:planted:raises:" + type(e).__name__, text=text, error=repr(e)[:200])
            continue
        rec.n("evaluations")
        chars = [i for i in issues if i["code"] == "CHARACTER_INVALID" and "char_index" in i]
        if not chars:
            rec.violation("C12:planted:no-character-issue-with-offsets", text=text, codes=[i["code"] for i in issues])
        for i in chars:
            sel = text[i["char_index"]:i["char_index_end"]]
            rec.n("distinct_nontrivial")
            if sel != "$":
                kind = "def-value" if "def" in str(i.get("source_tag", "")).casefold() else "tag"
                rec.violation(f"C12:planted:character-issue-points-at-another-character:{kind}", text=text, selected=sel,
                              offsets=(i["char_index"], i["char_index_end"]), message=i["message"][:160])
        rec.outcome("planted")


HISTORY_TEXTS = ["Green, Red, Square, (Def/Ext, Circle)", "Def/Vt/a$b, Green", "Triangle, Circle, Square, Green, Def/Ext",
                 "(Green, (Def/Ext)), Item/Zzqother", "(Def-expand/Ext, (Item/Zzqextdef, Blue)), Item/Zzqother, Def/Ext"]
HISTORY_OPS = ["expand", "shrink", "validate", "copy", "sort"]


def history_check(rec, st, depth):
    """E2: every sequence of object operations up to depth, then a validation with a context-carrying handler: the offsets
    of every issue still lie in the text the string was built from and select the fragment the message quotes."""
    from hed.models.hed_string import HedString
    from hed.errors.error_reporter import ErrorHandler
    from hed.errors.error_types import ErrorContext
    from hed.models.definition_dict import DefinitionDict
    from hed.validator import HedValidator
    dd = DefinitionDict(["(Definition/Ext, (Item/Zzqextdef, Blue))", "(Definition/Vt/#, (Label/#, Blue))"], st.schema)
    validator = HedValidator(st.schema, def_dicts=dd)

    def validate(hs, text, hist):
        eh = ErrorHandler()
        eh.push_error_context(ErrorContext.HED_STRING, hs)
        issues = validator.validate(hs, allow_placeholders=False, error_handler=eh)
        for i in issues:
            wellformed(rec, i, "history", text, {"text": text, "history": list(hist)})
        return sorted(i["code"] for i in issues)

    for text in HISTORY_TEXTS:
        base = None
        for d in range(0, depth + 1):
            for hist in itertools.product(HISTORY_OPS, repeat=d):
                rec.n("evaluations")
                rec.n("transitions", d + 1)
                if d:
                    rec.n("distinct_nontrivial")
                try:
                    hs = HedString(text, st.schema, dd)
                    for op in hist:
                        if op == "expand":
                            hs.expand_defs()
                        elif op == "shrink":
                            hs.shrink_defs()
                        elif op == "validate":
                            validate(hs, text, hist)
                        elif op == "copy":
                            hs = hs.copy()
                        elif op == "sort":
                            hs.sort()
                    codes = validate(hs, text, hist)
                except Exception as e:
                    rec.violation("C12:history:raises:" + type(e).__name__, text=text, history=list(hist), error=repr(e)[:200])
                    continue
                if base is None:
                    base = codes
                rec.outcome("history")


PREFIXED_TEXTS = ["sc:Item/Foo/Red", "sc:Item/Foo/Bar/Red, sc:Blue", "(sc:Red, sc:Item/Zzq/Blue/Green)", "sc:Item/Zzq/Qqz/Red/Blue",
                  "sc:Label/a$b, sc:Item/Foo/Red", "sc:Zzqunknown, sc:Red", "xx:Red, sc:Item/A/B/Red", "sc:Red/Blue"]


def prefixed_strings(rec):
    """The same offset rules for a schema held under a namespace prefix (the prefix is part of the text, once)."""
    from hed import load_schema_version
    from hed.models.hed_string import HedString
    from hed.errors.error_reporter import ErrorHandler
    from hed.errors.error_types import ErrorContext
    from hed.validator import HedValidator
    schema = load_schema_version("sc:8.3.0")
    validator = HedValidator(schema)
    for text in PREFIXED_TEXTS:
        for warn in (True, False):
            rec.n("evaluations")
            rec.n("distinct_nontrivial")
            try:
                hs = HedString(text, schema)
                eh = ErrorHandler(check_for_warnings=warn)
                eh.push_error_context(ErrorContext.HED_STRING, hs)
                issues = validator.validate(hs, allow_placeholders=False, error_handler=eh)
            except Exception as e:
                rec.violation("C12:string:raises:" + type(e).__name__, text=text, error=repr(e)[:200])
                continue
            for i in issues:
                wellformed(rec, i, "string", text, {"text": text, "warnings": warn, "schema": "sc:8.3.0"})
    rec.outcome("prefixed-strings")


def worker_strings(rec, shard, nshards, seed):
    from hed.models.hed_string import HedString
    from hed.errors.error_reporter import ErrorHandler
    from hed.errors.error_types import ErrorContext
    st = c01.Setup("HED8.3.0.xml")
    cases = list(dict.fromkeys(string_cases(st)))
    if shard == 0:
        planted_check(rec, st)
    if shard == 1 % nshards:
        history_check(rec, st, 3)
    if shard == 2 % nshards:
        prefixed_strings(rec)
    for ci in core.shard_order(len(cases), shard, nshards, seed):
        text, phs = cases[ci]
        for ph in phs:
            res = {}
            for warn in (True, False):
                for ctx in (False, True):
                    rec.n("evaluations")
                    rec.n("transitions")
                    try:
                        hs = HedString(text, st.schema, st.def_dict)
                        eh = ErrorHandler(check_for_warnings=warn)
                        if ctx:
                            eh.push_error_context(ErrorContext.HED_STRING, hs)
                        issues = st.validator.validate(hs, allow_placeholders=ph, error_handler=eh)
                    except Exception as e:
                        rec.violation("C12:string:raises:" + type(e).__name__, text=text, error=repr(e)[:200])
                        continue
                    where = {"text": text, "warnings": warn, "context_handler": ctx, "placeholders": ph}
                    for i in issues:
                        wellformed(rec, i, "string", text if ctx else None, where)
                        if not ctx and "char_index" in i:
                            pass
                    res[(warn, ctx)] = issues
                    json_check(rec, "string", issues, where)
                    # decorate again (1-3 times in total): the suffix must not multiply, offsets must not move
                    if ctx and issues:
                        snap = [(i.get("char_index"), i.get("char_index_end"), i["message"]) for i in issues]
                        for k in (2, 3):
                            eh.add_context_and_filter(issues)
                            now = [(i.get("char_index"), i.get("char_index_end"), i["message"]) for i in issues]
                            if now != snap:
                                rec.violation("C12:string:re-decoration-changes-issue", text=text, times=k,
                                              before=snap[0][2][:160], after=now[0][2][:160])
                                break
            for ctx in (False, True):
                if (True, ctx) in res and (False, ctx) in res:
                    subset_check(rec, "string", res[(True, ctx)], res[(False, ctx)], {"text": text, "placeholders": ph})
            rec.outcome("string:" + ("issues" if res.get((True, True)) else "clean"))
        if ci % 997 == 0:
            rec.sample({"entry": "string", "text": text})


# ---- sidecars, tables, datasets ------------------------------------------------------------------------------

def worker_files(rec, shard, nshards, scratch, seed):
    from hed import load_schema_version
    from hed.models.sidecar import Sidecar
    from hed.models.tabular_input import TabularInput
    from hed.models.spreadsheet_input import SpreadsheetInput
    from hed.errors.error_reporter import ErrorHandler
    from props import c08, c07, c16
    schema = load_schema_version("8.3.0")
    jobs = []
    for kind, codes, doc in c08.faults():
        jobs.append(("sidecar", doc))
    for doc in c08.valid_sidecars():
        jobs.append(("sidecar", doc))
    extra_sidecars = [
        {"a": {"HED": {"x": "Red, Zzq", "y": "Label/a$b"}}, "b": {"HED": "Description/#, Item/Zzext"}},
        {"a": {"HED": {"x": "(Definition/D1, (Red)), Blue", "y": "Def/D1, (Red, Red)"}}},
        {"a": {"HED": {"x": "{b}, Red/Blue"}}, "b": {"HED": "Label/#"}},
    ]
    jobs += [("sidecar", d) for d in extra_sidecars]
    kinds = list(c07.KINDS)
    for combo in itertools.product(kinds, repeat=3):
        if sum(1 for k in combo if k not in ("na", "tag")) <= 2 and hash(combo) % 3 == 0:
            jobs.append(("table", ([combo], ("HED", "c1", "c2"))))
    for combo in itertools.product(["tag", "unknown", "reptag", "circle", "ext", "onset", "badkey"], repeat=4):
        if hash(combo) % 4 == 0:
            jobs.append(("table", ([combo[:2], combo[2:]], ("HED", "c1"))))
    # events tables whose rows are out of time order: the file-level warning obeys the warning switch like any other
    for cells in (("Red", "Blue"), ("Red", "Zzq"), ("Item/Zzext", "Red"), ("(Green, (Circle))", "Blue, Blue")):
        jobs.append(("unordered-table", cells))
    # spreadsheets with 3-4 tag columns and no onset (the row string is built from several cell strings)
    cells = ["Red", "Blue, Blue", "Zzq", "Item/Zzext", "(Green, (Circle))", "n/a", "Label/a$b"]
    for combo in itertools.product(cells, repeat=4):
        if hash(combo) % 9 == 0:
            jobs.append(("spreadsheet", combo))
    # cells that hold blanks only, before cells whose issues carry offsets into the row string
    for combo in itertools.product([" ", "  ", "(Red, Red)", "Blue, Blue", "Label/a$b"], repeat=3):
        if any(not c.strip() for c in combo) and any(c.strip() for c in combo):
            jobs.append(("spreadsheet", combo + ("Red",)))
    trees = c16.build_trees(False)
    for t in trees[::max(1, len(trees) // 24)]:
        jobs.append(("dataset", t))
    root = os.path.join(scratch, f"c12_{shard}")
    for ji in core.shard_order(len(jobs), shard, nshards, seed):
        entry, payload = jobs[ji]
        res = {}
        for warn in (True, False):
            rec.n("evaluations")
            rec.n("transitions")
            try:
                if entry == "sidecar":
                    issues = Sidecar(io.StringIO(json.dumps(payload))).validate(schema, name="s.json",
                                                                                error_handler=ErrorHandler(warn))
                    where = {"sidecar": json.dumps(payload)[:300], "warnings": warn}
                elif entry == "table":
                    rows, columns = payload
                    tsv, sj = c07.build_file(rows, columns, None)
                    sc = Sidecar(io.StringIO(sj)) if sj != "{}" else None
                    issues = TabularInput(io.StringIO(tsv), sidecar=sc, name="f.tsv").validate(
                        schema, error_handler=ErrorHandler(warn))
                    where = {"table": tsv, "warnings": warn}
                elif entry == "unordered-table":
                    tsv = "onset\tHED\n5.0\t" + payload[0] + "\n2.0\t" + payload[1] + "\n"
                    issues = TabularInput(io.StringIO(tsv), name="u.tsv").validate(schema, error_handler=ErrorHandler(warn))
                    where = {"table": tsv, "warnings": warn}
                elif entry == "spreadsheet":
                    tsv = "c1\tc2\tc3\tc4\n" + "\t".join(payload) + "\n" + "\t".join(payload[::-1]) + "\n"
                    issues = SpreadsheetInput(io.StringIO(tsv), file_type=".tsv", tag_columns=["c1", "c2", "c3", "c4"]
                                              ).validate(schema, name="sp.tsv", error_handler=ErrorHandler(warn))
                    where = {"spreadsheet": tsv, "warnings": warn}
                else:
                    from hed.tools.bids.bids_dataset import BidsDataset
                    c16.write_tree(root, payload)
                    issues = BidsDataset(root, schema=schema).validate(check_for_warnings=warn)
                    where = {"dataset": payload["sidecars"], "warnings": warn}
            except Exception as e:
                rec.violation(f"C12:{entry}:raises:{type(e).__name__}", error=repr(e)[:200])
                continue
            for i in issues:
                wellformed(rec, i, entry, None, where)
            json_check(rec, entry, issues, where)
            res[warn] = issues
        if True in res and False in res:
            subset_check(rec, entry, res[True], res[False], {k: v for k, v in where.items() if k != "warnings"})
        rec.outcome(entry + ":" + ("issues" if res.get(True) else "clean"))
        if ji % 499 == 0:
            rec.sample({"entry": entry, "payload": repr(payload)[:200]})
    import shutil
    shutil.rmtree(root, ignore_errors=True)


# ---- sorting ---------------------------------------------------------------------------------------------------------

def sort_check(ctx):
    from hed.errors.error_reporter import sort_issues
    rec = ctx.rec
    files = ["a.tsv", "b.tsv", None]
    cols = ["c1", "c2", None]
    keys = ["k1", "k2", None]
    rows = [2, 10, None]
    grid = list(itertools.product(files, cols, keys, rows))

    def mk(i, f, c, k, r):
        d = {"code": f"X{i}", "message": "m", "severity": 1}
        if f is not None:
            d["ec_filename"] = f
        if c is not None:
            d["ec_sidecarColumnName"] = c
        if k is not None:
            d["ec_sidecarKeyName"] = k
        if r is not None:
            d["ec_row"] = r
        return d

    def refkey(d):
        return (d.get("ec_filename", ""), d.get("ec_sidecarColumnName", ""), d.get("ec_sidecarKeyName", ""),
                d.get("ec_row", -1))
    picks = grid[::5]
    n = 0
    for size in (2, 3, 4):
        for combo in itertools.combinations_with_replacement(range(len(picks)), size):
            if size == 4 and hash(combo) % 7:
                continue
            base = [mk(i, *picks[g]) for i, g in enumerate(combo)]
            for perm in itertools.permutations(base):
                perm = list(perm)
                n += 1
                got = sort_issues(list(perm))
                want = sorted(perm, key=refkey)      # Python's sort is stable: ties keep their input order
                if [d["code"] for d in got] != [d["code"] for d in want]:
                    rec.violation("C12:sort:order-differs-from-stable-reference", input=[(d["code"], refkey(d)) for d in perm],
                                  got=[d["code"] for d in got], expected=[d["code"] for d in want])
                    return
                got_r = sort_issues(list(perm), reverse=True)
                want_r = sorted(perm, key=refkey, reverse=True)     # descending, ties still in input order
                if [d["code"] for d in got_r] != [d["code"] for d in want_r]:
                    rec.violation("C12:sort:reverse-order-differs-from-stable-reference",
                                  input=[(d["code"], refkey(d)) for d in perm], got=[d["code"] for d in got_r],
                                  expected=[d["code"] for d in want_r])
                    return
                if sorted(map(id, got)) != sorted(map(id, perm)):
                    rec.violation("C12:sort:issues-lost-or-copied")
                    return
    # column labels are numbers in sheets without a header row, and absent on row-level issues: any mixture sorts
    cols = [0, 1, 10, "c1", None]
    for combo in itertools.product(cols, repeat=3):
        base = []
        for i, c in enumerate(combo):
            d = mk(i, "a.tsv", None, None, 2 if i < 2 else 3)
            if c is not None:
                d["ec_column"] = c
            base.append(d)
        for perm in itertools.permutations(base):
            n += 1
            try:
                got = sort_issues(list(perm))
            except Exception as e:
                rec.violation("C12:sort:raises:" + type(e).__name__, columns=[repr(c) for c in combo], error=repr(e)[:200])
                return
            if [refkey(d) for d in got] != sorted(refkey(d) for d in perm):
                rec.violation("C12:sort:documented-keys-out-of-order-with-mixed-columns", columns=[repr(c) for c in combo])
                return
    # labels that differ only in letter case are different labels: the issues of one file / column / key stay together
    # (which of the two spellings comes first is not asked), rows ascending inside
    def contiguous(seq):
        seen, last = set(), object()
        for x in seq:
            if x != last:
                if x in seen:
                    return False
                seen.add(x)
                last = x
        return True
    for fa, fb in (("Sub-01.tsv", "sub-01.tsv"), ("a.tsv", "a.tsv")):
        for ca, cb in (("Cue", "cue"), ("cue", "CUE"), ("c1", "c1")):
            if fa == fb and ca == cb:
                continue
            base = [mk(i, f, c, k, r) for i, (f, c, k, r) in enumerate(
                [(fa, ca, "go", 2), (fb, cb, "go", 2), (fa, ca, "stop", 3), (fb, cb, "stop", 3), (fa, ca, "go", 4)])]
            for perm in itertools.permutations(base):
                n += 1
                got = [refkey(d) for d in sort_issues(list(perm))]
                ok = all(contiguous([g[:lvl] for g in got]) for lvl in (1, 2, 3))
                ok = ok and all(a[3] <= b[3] for a, b in zip(got, got[1:]) if a[:3] == b[:3])
                if not ok:
                    rec.violation("C12:sort:labels-differing-in-letter-case-interleave", files=[fa, fb], columns=[ca, cb], got=got)
                    return
    rec.n("evaluations", n)
    rec.n("transitions", n)
    rec.outcome("sort-ok")


def run(ctx):
    scratch = ctx.subdir("c12")
    ctx.rec.notes["bounds"] = {"string_cases": "C01 quick generators for 8.3.0 (every 3rd tag, all templates / mutations)",
                               "decoration_repeats": 3, "sort_list_sizes": [2, 3, 4]}
    ctx.parallel(worker_strings, ctx.seed)
    ctx.parallel(worker_files, scratch, ctx.seed)
    sort_check(ctx)
    ctx.rec.counts["states"] = len(ctx.rec.states)


def replay(ctx, case):
    from hed.models.hed_string import HedString
    from hed.errors.error_reporter import ErrorHandler
    from hed.errors.error_types import ErrorContext
    rec = core.Rec()
    if "text" in case:
        st = c01.Setup("HED8.3.0.xml")
        hs = HedString(case["text"], st.schema, st.def_dict)
        eh = ErrorHandler(check_for_warnings=case.get("warnings", True))
        eh.push_error_context(ErrorContext.HED_STRING, hs)
        for i in st.validator.validate(hs, allow_placeholders=case.get("placeholders", False), error_handler=eh):
            wellformed(rec, i, "string", case["text"], {"text": case["text"]})
    return [(fp, d) for fp, lst in rec.viol.items() for d in lst[:1]]
