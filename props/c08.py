"""C08 - sidecar validation is total and flags each structural fault.

Engine E1: (i) all JSON documents of a layered grammar (column entry x HED entry x category value, every JSON type at every
layer); (ii) a well-typed base sidecar with every position replaced by every document of the remaining depth;
(iii) the base with each structural fault of the statement injected at every applicable position.
"""
import copy
import io
import itertools
import json

from mc import core

ID = "C08"
LEVEL = "model_checking"
RULE = ("(i) every JSON document: top object with 1-2 columns over keys {c, d, HED, n/a}; column entry in scalars + lists + "
        "objects with 1-2 keys of {HED, Levels, c}; HED entry in scalars + lists + objects with 0-2 keys of {a, n/a, HED} "
        "over 9 leaf values incl. nested list/object; plus top-level non-objects; (ii) every position of a 4-column "
        "well-typed base replaced by every smaller document; (iii) 13 fault kinds at every applicable position. "
        "distinct case = JSON text; non-trivial = contains a non-string where a string is expected or a fault; state = "
        "(layer types signature); transition = Sidecar() + validate() on the implementation")
ASSUMPTIONS = [
    "the documented HedFileError is the only exception allowed, and only for a top-level JSON value that is not an object",
    "for type faults either SIDECAR_INVALID or the library's more specific sidecar type codes are accepted as 'that rule's "
    "code' (wrongHedDataType, sidecarUnknownColumn, blankValueString)",
]

ERR = 1
SCALARS = [None, True, 0, 1.5, "", "Red", "Label/#", "{c}", "n/a"]
LEAF4 = [None, 0, "", "Red", "Label/#", "{c}", "{d}", ["Red"], {"a": "Red"}]
TYPE_CODES = {"SIDECAR_INVALID", "wrongHedDataType", "sidecarUnknownColumn", "blankValueString"}


def hed_entries():
    out = list(SCALARS) + [[], ["Red"]]
    keys = ["a", "n/a", "HED"]
    out.append({})
    for k in keys:
        for v in LEAF4:
            out.append({k: v})
    for k1, k2 in itertools.combinations(keys, 2):
        for v1 in LEAF4:
            for v2 in LEAF4:
                out.append({k1: v1, k2: v2})
    return out


def column_entries():
    H = hed_entries()
    out = list(SCALARS) + [[]] + [[s] for s in SCALARS]
    for k in ("HED", "Levels", "c"):
        for h in H:
            out.append({k: h})
    small = ["x", None, {"a": "d"}]
    for k1, k2 in (("HED", "Levels"), ("HED", "c"), ("Levels", "c")):
        for h in H:
            for s in small:
                out.append({k1: h, k2: s})
    return out


SECOND = [{"HED": "Label/#"}, {"HED": {"a": "Blue"}}, {"Levels": {"a": "text"}}, "text", None, {"HED": "{c}, Label/#"}]


def documents():
    E = column_entries()
    for name in ("c", "HED", "n/a"):
        for e in E:
            yield {name: e}
    for e in E:
        for s in SECOND:
            yield {"c": e, "d": s}
    for top in (None, True, 0, "text", [], [{"c": {"HED": "Red"}}], "n/a"):
        yield top


BASE = {
    "cat": {"HED": {"a": "Red", "b": "(Blue, {val})"}, "Levels": {"a": "first", "b": "second"}},
    "val": {"HED": "Label/#", "Description": "a value"},
    "other": {"HED": {"x": "Green", "y": "Circle"}},
    "ign": {"Description": "no hed here"},
}


def positions(doc, path=()):
    yield path
    if isinstance(doc, dict):
        for k, v in doc.items():
            yield from positions(v, path + (k,))
    elif isinstance(doc, list):
        for i, v in enumerate(doc):
            yield from positions(v, path + (i,))


def set_at(doc, path, value):
    doc = copy.deepcopy(doc)
    if not path:
        return value
    node = doc
    for k in path[:-1]:
        node = node[k]
    node[path[-1]] = value
    return doc


def replacements():
    small = list(SCALARS) + [[], ["Red"], [None], {}, {"HED": "Red"}, {"HED": {"a": "Red"}}, {"a": "Red"}, {"a": None},
                             {"HED": None}, {"HED": ["Red"]}, {"HED": {"a": ["Red"]}}, {"n/a": "Red"}, {"HED": {}},
                             {"a": {"b": "Red"}}, [["Red"]], [{"HED": "Red"}]]
    for path in positions(BASE):
        if not path:
            continue
        for v in small:
            yield set_at(BASE, path, v)


def faults():
    """(kind, expected code set, document)"""
    out = []
    B = BASE
    def add(kind, codes, doc):
        out.append((kind, codes, doc))
    # 1 HED entry that is neither a string nor a map
    for col in ("cat", "val", "other"):
        for v in (["Red"], 3, True, None):
            if v is None:
                continue
            add("hed-entry-wrong-type", TYPE_CODES, set_at(B, (col, "HED"), v))
    # 2 categorical value that is not a string
    for col, key in (("cat", "a"), ("cat", "b"), ("other", "x"), ("other", "y")):
        for v in (["Red"], 3, {"q": "Red"}, None, "", 0, False, [], {}):
            add("category-value-wrong-type", TYPE_CODES, set_at(B, (col, "HED", key), v))
    # 3 value column with zero / two '#'
    add("value-column-two-placeholders", {"PLACEHOLDER_INVALID"}, set_at(B, ("val", "HED"), "Label/#, Description/#"))
    add("value-column-two-placeholders", {"PLACEHOLDER_INVALID"}, set_at(B, ("val", "HED"), "(Label/#, (Description/#))"))
    for two in ("Label/##", "Item-count/#-#", "Red, (Label/#_#, Blue)", "Label/# #"):      # both '#' in one tag
        add("value-column-two-placeholders", {"PLACEHOLDER_INVALID"}, set_at(B, ("val", "HED"), two))
    add("value-column-no-placeholder", {"PLACEHOLDER_INVALID"} | TYPE_CODES, set_at(B, ("val", "HED"), "Red"))
    for empty in ("", " ", "n/a"):
        add("value-column-no-placeholder", {"PLACEHOLDER_INVALID"} | TYPE_CODES, set_at(B, ("val", "HED"), empty))
        add("value-column-no-placeholder", {"PLACEHOLDER_INVALID"} | TYPE_CODES, {"val": {"HED": empty}})
    # 4 categorical entry with '#'
    for col, key in (("cat", "a"), ("other", "x"), ("other", "y")):
        add("category-with-placeholder", {"PLACEHOLDER_INVALID"}, set_at(B, (col, "HED", key), "Label/#"))
        add("category-with-placeholder", {"PLACEHOLDER_INVALID"}, set_at(B, (col, "HED", key), "(Red, Label/#)"))
    # 3a a value column without '#' that holds a reference nobody else uses
    for ref_text in ("({kind}, Label/Fixed)", "{kind}", "Red, {kind}"):
        add("value-column-no-placeholder", {"PLACEHOLDER_INVALID"} | TYPE_CODES,
            {"kind": {"HED": {"go": "Red", "stop": "Blue"}}, "amount": {"HED": ref_text}})
        add("value-column-no-placeholder", {"PLACEHOLDER_INVALID"} | TYPE_CODES,
            {"amount": {"HED": ref_text}, "kind": {"HED": {"go": "Red", "stop": "Blue"}}, "ign": {"Description": "x"}})
    # 3b / 4b the same faults in an entry that also holds a definition (definitions themselves are not counted)
    for d in ("(Definition/Dd, (Red))", "(Definition/Dv/#, (Label/#))"):
        add("value-column-two-placeholders", {"PLACEHOLDER_INVALID"}, set_at(B, ("val", "HED"), d + ", Label/#, Description/#"))
        add("value-column-two-placeholders", {"PLACEHOLDER_INVALID"}, set_at(B, ("val", "HED"), "Label/#, (Description/#), " + d))
        add("value-column-no-placeholder", {"PLACEHOLDER_INVALID"} | TYPE_CODES, set_at(B, ("val", "HED"), d + ", Red"))
        for col, key in (("cat", "a"), ("other", "y")):
            add("category-with-placeholder", {"PLACEHOLDER_INVALID"}, set_at(B, (col, "HED", key), d + ", Label/#"))
            add("category-with-placeholder", {"PLACEHOLDER_INVALID"}, set_at(B, (col, "HED", key), "(Red, Label/#), " + d))
    # 5 HED used as a column name
    for entry in ({"HED": "Label/#"}, {"HED": {"a": "Red"}}, {"Description": "x"}, "Label/#", "Red", None, 12, True, 1.5, "",
                  [], ["Red"], {}, {"Levels": {"a": "x"}}):
        d = copy.deepcopy(B)
        d["HED"] = entry
        add("hed-as-column-name", {"SIDECAR_INVALID"}, d)
        add("hed-as-column-name", {"SIDECAR_INVALID"}, dict([("HED", copy.deepcopy(entry))] + list(copy.deepcopy(B).items())))
        add("hed-as-column-name", {"SIDECAR_INVALID"}, {"HED": copy.deepcopy(entry)})
    # 5b HED key nested inside a column without a top HED entry
    add("hed-key-nested", {"SIDECAR_INVALID"}, set_at(B, ("ign",), {"Levels": {"HED": "Red"}}))
    # 6 n/a as category key
    for col in ("cat", "other"):
        d = copy.deepcopy(B)
        d[col]["HED"]["n/a"] = "Square"
        add("na-category-key", {"SIDECAR_INVALID"}, d)
    # 7 unbalanced braces
    for col, key in (("cat", "a"), ("cat", "b"), ("other", "x")):
        for s in ("Red, {val", "Red, val}", "{{val}}, Red", "{val}}, Red", "}val{, Red", "Red, {", "Red}, {val}",
                  "Red}, ({val}, Green)", "}, {val}"):
            add("braces-unbalanced", {"SIDECAR_BRACES_INVALID"}, set_at(B, (col, "HED", key), s))
    add("braces-unbalanced", {"SIDECAR_BRACES_INVALID"}, set_at(B, ("val", "HED"), "Label/#, {other"))
    # 8 reference to a column that does not exist / has no HED
    for col, key in (("cat", "a"), ("other", "y")):
        add("ref-unknown-column", {"SIDECAR_BRACES_INVALID"}, set_at(B, (col, "HED", key), "Red, {nope}"))
        add("ref-non-hed-column", {"SIDECAR_BRACES_INVALID"}, set_at(B, (col, "HED", key), "Red, {ign}"))
    add("ref-unknown-column", {"SIDECAR_BRACES_INVALID"}, set_at(B, ("val", "HED"), "Label/#, {nope}"))
    # 8b braces around something that is not (and cannot be) the name of a column
    for col, key in (("cat", "a"), ("other", "y")):
        for ref in ("{no such}", "{nosuch.col}", "{\u00e9t\u00e9}", "{x/y}"):
            add("ref-not-a-column-name", {"SIDECAR_BRACES_INVALID"}, set_at(B, (col, "HED", key), "Red, " + ref))
    # 9 self reference
    add("ref-self", {"SIDECAR_BRACES_INVALID"}, set_at(B, ("cat", "HED", "a"), "Red, {cat}"))
    add("ref-self", {"SIDECAR_BRACES_INVALID"}, set_at(B, ("val", "HED"), "Label/#, {val}"))
    add("ref-self", {"SIDECAR_BRACES_INVALID"}, set_at(B, ("other", "HED", "y"), "({other}, Circle)"))
    # 10 nested reference: cat -> val already; make val reference other, in every column order
    nested = set_at(B, ("val", "HED"), "Label/#, {other}")
    for order in itertools.permutations(["cat", "val", "other", "ign"]):
        add("ref-nested", {"SIDECAR_BRACES_INVALID"}, {k: nested[k] for k in order})
    nested2 = set_at(B, ("other", "HED", "x"), "Green, {cat}")
    for order in itertools.permutations(["cat", "val", "other"]):
        d = {k: nested2[k] for k in order}
        add("ref-nested", {"SIDECAR_BRACES_INVALID"}, d)
    return out


def valid_sidecars():
    yield BASE
    for order in itertools.permutations(list(BASE)):
        yield {k: BASE[k] for k in order}
    yield set_at(BASE, ("cat", "HED", "b"), "(Blue, {val}), {HED}")
    yield set_at(BASE, ("cat", "HED", "b"), "Blue")
    yield set_at(BASE, ("other", "HED", "x"), "{val}, Green")
    yield {"val": BASE["val"]}
    yield {"ign": BASE["ign"]}
    # a column of definitions (with and without a value), used by the other columns
    defs = {"HED": {"d1": "(Definition/Dd, (Red))", "d2": "(Definition/Dv/#, (Label/#))", "d3": "(Definition/De)"}}
    yield dict(BASE, defs=defs)
    yield dict(set_at(set_at(BASE, ("val", "HED"), "Def/Dv/#"), ("cat", "HED", "a"), "Def/Dd, (Def/Dv/x, Red)"), defs=defs)
    yield dict([("defs", defs)] + list(BASE.items()))
    # a definitions column whose entries hold different numbers of definitions
    yield {"defs": {"HED": {"first": "(Definition/Aaa, (Red)), (Definition/Bbb, (Blue))", "second": "(Definition/Ccc, (Green))",
                            "third": "(Definition/Ddd/#, (Label/#)), (Definition/Eee, (Square)), (Definition/Fff)"}},
           "ev": {"HED": {"x": "Def/Aaa, (Def/Ccc, Def/Ddd/v)", "y": "Def/Eee"}}}
    # a referenced column whose name has a hyphen / an underscore and digits
    for name in ("resp-time", "resp_time2", "r-2-d2"):
        yield {name: {"HED": "Label/#"}, "ev": {"HED": {"x": "(Red, {%s})" % name, "y": "Blue"}}}
        yield {name: {"HED": {"a": "Green", "b": "Square"}}, "ev": {"HED": {"x": "{%s}, Red" % name}}}
    # a referenced column whose name has capitals and whose entries are complete only where they are spliced in
    for name in ("Phase", "trial_Phase2", "PHASE", "phase"):
        yield {"defs": defs, name: {"HED": {"start": "Onset", "end": "Offset"}},
               "ev": {"HED": {"x": "(Def/Dd, {%s})" % name, "y": "Red"}}}
        yield {name: {"HED": "Label/#"}, "ev": {"HED": {"x": "(Red, {%s})" % name}}}
    yield {}


class Env:
    def __init__(self):
        from hed import load_schema_version
        from hed.models.sidecar import Sidecar
        from hed.errors.exceptions import HedFileError
        self.schema = load_schema_version("8.3.0")
        self.Sidecar = Sidecar
        self.HedFileError = HedFileError


def run_doc(env, rec, doc, kind, expected=None, must_be_clean=False):
    text = json.dumps(doc)
    rec.n("evaluations")
    rec.n("transitions")
    try:
        sc = env.Sidecar(io.StringIO(text))
    except env.HedFileError:
        if isinstance(doc, dict):
            rec.violation("C08:construct:HedFileError-for-object", doc=text, kind=kind)
        rec.outcome("refused-at-load")
        return
    except Exception as e:
        rec.violation(f"C08:construct:raises:{type(e).__name__}:{shape(doc)}", doc=text, kind=kind, error=repr(e)[:200])
        rec.outcome("raises")
        return
    try:
        issues = sc.validate(env.schema)
    except Exception as e:
        import traceback
        tb = traceback.extract_tb(e.__traceback__)[-1]
        rec.violation(f"C08:validate:raises:{type(e).__name__}:{tb.name}", doc=text, kind=kind, error=repr(e)[:200],
                      where=f"{tb.filename.split('/hed/')[-1]}:{tb.lineno}")
        rec.outcome("raises")
        return
    ok = isinstance(issues, list) and all(isinstance(i, dict) and "code" in i and "message" in i and "severity" in i
                                           for i in issues)
    if not ok:
        rec.violation("C08:validate:malformed-result", doc=text, kind=kind)
        return
    errs = [i["code"] for i in issues if i["severity"] == ERR]
    rec.outcome(kind.split(":")[0] + ":" + ("clean" if not errs else "errors"))
    if must_be_clean and errs:
        rec.violation("C08:valid-sidecar-rejected:" + errs[0], doc=text, codes=errs)
    if expected is not None:
        rec.n("distinct_nontrivial")
        if not (set(errs) & expected):
            rec.violation(f"C08:fault-missed:{kind}:got={'+'.join(sorted(set(errs))) or 'nothing'}", doc=text,
                          expected=sorted(expected), codes=errs)


def shape(doc):
    if isinstance(doc, dict):
        return "top-object"
    return "top-" + type(doc).__name__


def sig(doc, depth=0):
    if isinstance(doc, dict):
        return "{" + ",".join(f"{k}:{sig(v, depth + 1)}" for k, v in doc.items()) + "}"
    if isinstance(doc, list):
        return "[" + ",".join(sig(v, depth + 1) for v in doc) + "]"
    if isinstance(doc, str):
        return "s#" if "#" in doc else "s{" if "{" in doc else "s"
    return type(doc).__name__[0]


BRACE_TEXTS = ["{größe}, Red", "Label/#, {durée}", "{col٣}", "{x y}", "{ cat }", "{cat}{cat}", "{Ça}", "{ß}", "{-}", "{_}", "{}",
               "{cat", "cat}", "{{cat}}", "{CAT}", "{val}, {größe}", "({é})", "{cat\u00a0}", "{１}"]


def brace_documents():
    """Texts with braces around every kind of character, at every HED position of the base."""
    for text in BRACE_TEXTS:
        yield set_at(BASE, ("other", "HED", "x"), text)
        yield set_at(BASE, ("cat", "HED", "a"), text)
        yield set_at(BASE, ("val", "HED"), text if "#" in text else "Label/#, " + text)
        yield {"only": {"HED": {"a": text}}}


HIST_OPS = ["validate", "validate-errors-only", "drop-hed:val", "drop-hed:other", "give-hed:ign", "make-value:other",
            "ref-to-other:cat", "ref-to-ign:cat", "restore"]


def shared_definitions_check(env, rec):
    """E2: one list of extra definition dictionaries handed to several validations (of one sidecar, of two sidecars): every
    validation gives what it gives with a list of its own, and the list is as it was."""
    from hed.models.definition_dict import DefinitionDict
    docs = [{"defs": {"HED": {"d1": "(Definition/Dd, (Red))", "d2": "(Definition/Dv/#, (Label/#))"}},
             "ev": {"HED": {"x": "Def/Dd, Def/Ex", "y": "Def/Dv/abc"}}},
            {"ev": {"HED": {"x": "Def/Ex, Blue"}}, "val": {"HED": "Label/#, Def/Ex"}}]

    def extra():
        return [DefinitionDict(["(Definition/Ex, (Green))"], env.schema)]

    def codes(doc, lst):
        return sorted((i["code"], i["severity"]) for i in env.Sidecar(io.StringIO(json.dumps(doc))).validate(
            env.schema, extra_def_dicts=lst))
    fresh = [codes(d, extra()) for d in docs]
    for seq in itertools.product(range(len(docs)), repeat=3):
        shared = extra()
        rec.n("evaluations")
        rec.n("transitions", 3)
        rec.n("distinct_nontrivial")
        for step, k in enumerate(seq):
            got = codes(docs[k], shared)
            if got != fresh[k] or len(shared) != 1:
                rec.violation("C08:shared-definition-list:validation-depends-on-earlier-validations", sequence=list(seq), step=step,
                              fresh=fresh[k], got=got, list_length=len(shared))
                break
    rec.outcome("shared-definitions")


def history_check(env, rec, depth):
    """E2: one Sidecar object is validated, edited in place (same top-level keys) and validated again in every order up to
    depth: every validation equals that of a fresh Sidecar built from the current document."""
    def codes(sc, warn=True):
        return sorted((i["code"], i.get("ec_sidecarColumnName", "")) for i in sc.validate(
            env.schema, error_handler=None) if warn or i["severity"] == ERR)
    for hist in (h for d in range(1, depth + 1) for h in itertools.product(HIST_OPS, repeat=d)):
        if not any(o.startswith("validate") for o in hist[1:]):
            continue
        rec.n("evaluations")
        rec.n("transitions", len(hist))
        rec.n("distinct_nontrivial")
        rec.state(("history", tuple(sorted(set(hist)))))
        try:
            sc = env.Sidecar(io.StringIO(json.dumps(BASE)))
            for step, op in enumerate(hist):
                d = sc.loaded_dict
                if op.startswith("validate"):
                    warn = op == "validate"
                    got = codes(sc, warn)
                    want = codes(env.Sidecar(io.StringIO(json.dumps(d))), warn)
                    if got != want:
                        rec.violation("C08:history:validation-differs-from-fresh-sidecar", history=list(hist), step=step,
                                      document=json.dumps(d), fresh=want, got=got)
                        break
                elif op == "drop-hed:val":
                    d["val"].pop("HED", None)                 # edits inside the column entry (the entry object stays)
                elif op == "drop-hed:other":
                    d["other"] = {"Description": "annotation removed"}
                elif op == "give-hed:ign":
                    d["ign"]["HED"] = {"k": "Square"}
                elif op == "make-value:other":
                    d["other"] = {"HED": "Description/#"}
                elif op == "ref-to-other:cat":
                    d["cat"]["HED"]["b"] = "(Blue, {other})"
                elif op == "ref-to-ign:cat":
                    d["cat"]["HED"]["b"] = "(Blue, {ign})"
                elif op == "restore":
                    for k, v in copy.deepcopy(BASE).items():
                        d[k] = v
            rec.outcome("history")
        except Exception as e:
            rec.violation("C08:history:raises:" + type(e).__name__, history=list(hist), error=repr(e)[:200])


def worker(rec, shard, nshards, seed, thorough):
    env = Env()
    if shard == 0:
        history_check(env, rec, 4 if thorough else 3)
    if shard == 1 % nshards:
        shared_definitions_check(env, rec)
    docs = [("doc", d, None, False) for d in documents()]
    docs += [("doc", d, None, False) for d in brace_documents()]
    docs += [("replace", d, None, False) for d in replacements()]
    docs += [("fault:" + k, d, codes, False) for k, codes, d in faults()]
    docs += [("valid", d, None, True) for d in valid_sidecars()]
    for idx in core.shard_order(len(docs), shard, nshards, seed):
        kind, d, expected, clean = docs[idx]
        kk = kind.split(":", 1)[1] if kind.startswith("fault:") else kind
        run_doc(env, rec, d, kk, expected, clean)
        rec.state(sig(d))
        if not isinstance(d, (dict, list)) or any(not isinstance(x, str) for x in _leaves(d)):
            if expected is None:
                rec.n("distinct_nontrivial")
        if idx % 4001 == 0:
            rec.sample({"kind": kind, "doc": json.dumps(d)[:200]})


def _leaves(d):
    if isinstance(d, dict):
        for v in d.values():
            yield from _leaves(v)
    elif isinstance(d, list):
        for v in d:
            yield from _leaves(v)
    else:
        yield d


def run(ctx):
    ctx.rec.notes["bounds"] = {"documents": sum(1 for _ in documents()), "replacements": sum(1 for _ in replacements()),
                               "faults": len(faults()), "valid": sum(1 for _ in valid_sidecars())}
    ctx.parallel(worker, ctx.seed, ctx.thorough)
    ctx.rec.counts["states"] = len(ctx.rec.states)


def replay(ctx, case):
    env = Env()
    rec = core.Rec()
    doc = json.loads(case["doc"])
    exp = set(case["expected"]) if case.get("expected") else None
    run_doc(env, rec, doc, case.get("kind", "doc"), exp)
    return [(fp, d) for fp, lst in rec.viol.items() for d in lst[:1]]
