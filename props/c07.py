"""C07 - file-level validation equals row-by-row string validation, with true locations.

Engine E1, differential: every generated table (1-3 HED-bearing columns, 1-3 rows, cells from a menu of valid / invalid /
temporal / Delay / Duration texts, with and without an onset column) is validated at file level and compared with
string-level validation of each row's assembled annotation (the library's own, used differentially) plus the C10 reference
machine for cross-row temporal issues; every row permutation of every file with distinct onsets is validated as well.
"""
import io
import itertools
import json
import os
import shutil

from mc import core
from props.c10 import RefMachine

ID = "C07"
LEVEL = "model_checking"
RULE = ("files: (F1) one row x 3 columns over all 13 cell kinds; (F2) 2 and 3 rows in the HED column over all kinds; (F3) 2 rows "
        "x 2 columns over 7 kinds; each without an onset column and with distinct onsets, the latter in every row permutation; "
        "(F4) Delay/Duration groups in every accepted unit spelling.  distinct case = (file text); non-trivial = a file with an "
        "invalid cell, a temporal marker or more than one row; state = (multiset of row kinds, onset mode); transition = one "
        "file-level validation")
ASSUMPTIONS = [
    "string-level validation (HedString.validate with the same definitions) is used differentially as the per-row reference",
    "rows are given distinct onsets and Delay-shifted groups never land on another row's time (rows that share a time point "
    "are C10's subject)",
    "a cell is 'individually error-free' when the per-cell (basic) checks of string validation report no error for it; the "
    "errors 'of a cell' that must at least be reported for other rows are those per-cell errors",
    "cross-row temporal counts are judged only in files without failing cells",
    "without an onset column every Onset/Offset/Inset/Duration/Delay tag draws one TEMPORAL_TAG_ERROR",
]

ERR = 1
DEFS = ["(Definition/A, (Red))"]
KINDS = {
    "na": "n/a",
    "tag": "Red",
    "group": "(Blue, Green)",
    "unknown": "Zzq",
    "reptag": "Square, Square",
    "circle": "Circle",
    "ext": "Item/Zzqext",
    "delay": "(Delay/1 s, (Triangle))",
    "duration": "(Duration/2 s, (Triangle))",
    "onset": "(Def/A, Onset)",
    "offset": "(Def/A, Offset)",
    "inset": "(Def/A, Inset)",
    "badgroup": "(Blue, (Zzq))",
    "badkey": "n/a",      # in a categorical column: a cell that is not a key of the sidecar (column-structure issue)
}
ROW_LEVEL_TOO = ()       # codes that a cell check and a row check can both produce (none with this cell alphabet)
TEMPORAL_TAGS = ("onset", "offset", "inset", "delay/", "duration/")
UNIT_SPELLINGS = ["1 s", "1 Seconds", "1 second", "1000 ms", "1 SECONDS", "1000 milliseconds", "0.001 ks"]


class Env:
    def __init__(self):
        from hed import load_schema_version
        from hed.models.definition_dict import DefinitionDict
        from hed.models.hed_string import HedString
        self.schema = load_schema_version("8.3.0")
        self.dd = DefinitionDict(DEFS, self.schema)
        self.HedString = HedString
        self.cache = {}
        self.bcache = {}
        from hed.validator import HedValidator
        self.validator = HedValidator(self.schema, def_dicts=self.dd)

    def basic_codes(self, text):
        """Error codes of the per-cell (basic) checks of a cell text: the errors a cell has on its own."""
        r = self.bcache.get(text)
        if r is None:
            if text in ("", "n/a"):
                r = ()
            else:
                issues = self.validator.run_basic_checks(self.HedString(text, self.schema), allow_placeholders=False)
                r = tuple(sorted(i["code"] for i in issues if i["severity"] == ERR))
            self.bcache[text] = r
        return r

    def basic_all_codes(self, text):
        """Codes of every severity the per-cell checks give for a cell text."""
        r = self.bcache.get(("all", text))
        if r is None:
            if text in ("", "n/a"):
                r = frozenset()
            else:
                issues = self.validator.run_basic_checks(self.HedString(text, self.schema), allow_placeholders=False)
                r = frozenset(i["code"] for i in issues)
            self.bcache[("all", text)] = r
        return r

    def string_codes(self, text):
        """Error codes of string-level validation of text (cached)."""
        r = self.cache.get(text)
        if r is None:
            if text in ("", "n/a"):
                r = ()
            else:
                issues = self.HedString(text, self.schema, self.dd).validate(allow_placeholders=False)
                r = tuple(sorted(i["code"] for i in issues if i["severity"] == ERR))
            self.cache[text] = r
        return r


def temporal_count(text):
    low = text.casefold()
    return sum(low.count(t) for t in TEMPORAL_TAGS)


def build_file(rows, columns, onsets):
    """rows: list of tuples of cell kinds (one per column).  Sidecar maps kind keys to texts for non-HED columns."""
    sidecar = {}
    for c in columns:
        if c == "r":
            # every key of column r splices column c1 into a group of its own
            sidecar[c] = {"HED": {k: f"(Label/K-{k}, {{c1}})" for k in KINDS if k not in ("na", "badkey")}}
        elif c != "HED":
            sidecar[c] = {"HED": {k: v for k, v in KINDS.items() if k not in ("na", "badkey")}}
    header = (["onset"] if onsets is not None else []) + list(columns)
    lines = ["\t".join(header)]
    for i, r in enumerate(rows):
        cells = []
        for c, k in zip(columns, r):
            if c == "HED":
                cells.append(KINDS[k])
            else:
                cells.append("n/a" if k == "na" else "zzkey" if k == "badkey" else k)
        lines.append("\t".join(([str(onsets[i])] if onsets is not None else []) + cells))
    return "\n".join(lines) + "\n", json.dumps(sidecar)


def expected_for(env, rows, columns, onsets):
    """Per file row (1-based with header): (exact?, expected code multiset, must-contain set)."""
    out = {}
    machine = RefMachine()
    order = sorted(range(len(rows)), key=lambda i: onsets[i]) if onsets is not None else range(len(rows))
    cross = {}
    if onsets is not None:
        for i in order:
            marks = [(k.capitalize(), "A") for k in rows[i] if k in ("onset", "offset", "inset")]
            # markers of one row are in column order; the assembly order is the sorted column name order
            cols_sorted = sorted(range(len(columns)), key=lambda j: columns[j])
            marks = [(rows[i][j].capitalize(), "A") for j in cols_sorted if rows[i][j] in ("onset", "offset", "inset")]
            cross[i] = len(machine.step(marks))
    for i, r in enumerate(rows):
        texts = [KINDS[k] for k in r if k not in ("na", "badkey")]
        cell_codes = [env.basic_codes(t) for t in texts]
        cells_clean = all(not c for c in cell_codes)
        cols_sorted = sorted(range(len(columns)), key=lambda j: columns[j])
        row_text = ", ".join(KINDS[r[j]] for j in cols_sorted if r[j] not in ("na", "badkey"))
        want = list(env.string_codes(row_text))
        if onsets is None:
            want += ["TEMPORAL_TAG_ERROR"] * temporal_count(row_text)
        else:
            want += ["TEMPORAL_TAG_ERROR"] * cross.get(i, 0)
        must = set()
        for cc in cell_codes:
            must.update(cc)
        out[i + 2] = (cells_clean, sorted(want), must)
    return out


def validate_file(env, tsv, sidecar_json):
    from hed.models.tabular_input import TabularInput
    from hed.models.sidecar import Sidecar
    sc = Sidecar(io.StringIO(sidecar_json)) if sidecar_json != "{}" else None
    ti = TabularInput(io.StringIO(tsv), sidecar=sc, name="f.tsv")
    return ti.validate(env.schema, extra_def_dicts=env.dd)


def check_file(env, rec, rows, columns, onsets, label):
    tsv, sj = build_file(rows, columns, onsets)
    rec.n("evaluations")
    rec.n("transitions")
    if len(rows) > 1 or any(k not in ("na", "tag", "group") for r in rows for k in r):
        rec.n("distinct_nontrivial")
    try:
        issues = validate_file(env, tsv, sj)
    except Exception as e:
        rec.violation(f"C07:raises:{type(e).__name__}:{label}", file=tsv, error=repr(e)[:300])
        rec.outcome("raises")
        return None
    exp = expected_for(env, rows, columns, onsets)
    # cross-row temporal bookkeeping is only judged when no row of the file has a failing cell: whether the markers of a
    # row with an invalid cell take effect is not specified
    temporal_exact = all(clean for clean, _, _ in exp.values())
    by_row = {}
    for iss in issues:
        if iss["severity"] != ERR:
            continue
        r = iss.get("ec_row")
        by_row.setdefault(r, []).append(iss)
    for r in by_row:
        if r not in exp:
            rec.violation(f"C07:issue-on-nonexistent-row:{label}", file=tsv, row=r,
                          codes=[i["code"] for i in by_row[r]])
            return issues
    for r, (clean, want, must) in exp.items():
        got = sorted(i["code"] for i in by_row.get(r, []))
        if clean:
            if onsets is not None and not temporal_exact:
                got = [c for c in got if c != "TEMPORAL_TAG_ERROR"]
                want = [c for c in want if c != "TEMPORAL_TAG_ERROR"]
            if got != want:
                rec.violation(f"C07:row-codes-differ:{label}:{kind_of(rows[r - 2])}", file=tsv, row=r, expected=want, got=got)
                rec.outcome("differs")
                return issues
        else:
            if not must <= set(got):
                rec.violation(f"C07:cell-error-missing:{label}:{kind_of(rows[r - 2])}", file=tsv, row=r,
                              expected_at_least=sorted(must), got=got)
                rec.outcome("cell-error-missing")
                return issues
        # column labels of cell-level errors
        for iss in by_row.get(r, []):
            if iss["code"] == "TAG_INVALID":
                col = iss.get("ec_column")
                row = rows[r - 2]
                cols_with_unknown = [c for c, k in zip(columns, row) if k in ("unknown", "badgroup")]
                if col not in cols_with_unknown:
                    rec.violation(f"C07:wrong-column-label:{label}", file=tsv, row=r, column=col, expected_in=cols_with_unknown)
                    return issues
    # true locations: an issue of a cell check names a column whose cell gives that code on its own; an issue of the
    # assembled row / of the file (row-level, temporal, order) names no column; file-level order warnings name no row
    for iss in issues:
        code, r, col = iss["code"], iss.get("ec_row"), iss.get("ec_column")
        if code == "SIDECAR_KEY_MISSING":
            continue
        if code == "ONSETS_UNORDERED":
            if r is not None or col is not None:
                rec.violation(f"C07:file-level-issue-carries-location:{label}", file=tsv, code=code, row=r, column=col)
                return issues
            continue
        if r not in exp:
            continue
        row = rows[r - 2]
        cand = [c for c, k in zip(columns, row) if k not in ("na", "badkey") and code in env.basic_all_codes(KINDS[k])]
        if (col is not None and col not in cand) or (col is None and cand and code not in ROW_LEVEL_TOO):
            rec.violation(f"C07:issue-column-label-wrong:{'row-level' if not cand else 'cell-level'}:{label}", file=tsv,
                          code=code, row=r, column=col, columns_whose_cell_gives_it=cand)
            return issues
    # column-structure issues: one SIDECAR_KEY_MISSING per unknown categorical key, on its file row and column
    want_keys = sorted((i + 2, c) for i, r in enumerate(rows) for c, k in zip(columns, r) if k == "badkey" and c != "HED")
    got_keys = sorted((i.get("ec_row"), i.get("ec_column")) for i in issues if i["code"] == "SIDECAR_KEY_MISSING")
    if want_keys != got_keys:
        rec.violation(f"C07:column-structure-issue-location:{label}", file=tsv, expected=want_keys, got=got_keys)
    # warnings about order
    unordered = [i for i in issues if i["code"] == "ONSETS_UNORDERED"]
    want_unordered = 1 if (onsets is not None and list(onsets) != sorted(onsets)) else 0
    if len(unordered) != want_unordered:
        rec.violation(f"C07:unordered-warning-count:{label}", file=tsv, expected=want_unordered, got=len(unordered))
    rec.outcome("ok:" + ("errors" if by_row else "clean"))
    # the same file with a trailing tab after every data row (not after the header): same columns, same issues
    if label.startswith(("F1", "F3")) and label.endswith(":sorted"):
        head, _, body = tsv.partition("\n")
        ragged = head + "\n" + "".join(line + "\t\n" for line in body.splitlines())
        rec.n("evaluations")
        try:
            again = validate_file(env, ragged, sj)
        except Exception as e:
            rec.violation(f"C07:raises:{type(e).__name__}:trailing-tab", file=ragged, error=repr(e)[:300])
            return issues

        def key(lst):
            return sorted((i["code"], i.get("ec_row"), i.get("ec_column")) for i in lst)
        if key(again) != key(issues):
            rec.violation("C07:trailing-tab-shifts-columns", file=ragged, without=key(issues), with_trailing_tab=key(again))
    return issues


def kind_of(row):
    return "+".join(sorted(set(row)))


def issue_key(iss, relabel):
    return (iss["code"], relabel.get(iss.get("ec_row"), iss.get("ec_row")), iss.get("ec_column"), iss["severity"])


def check_permutations(env, rec, rows, columns, label):
    """Same rows with distinct onsets in every file order: only the row labels move, plus one unordered warning."""
    n = len(rows)
    onsets = [10 * (i + 1) for i in range(n)]
    base = check_file(env, rec, rows, columns, onsets, label + ":sorted")
    if base is None:
        return
    base_keys = sorted(issue_key(i, {}) for i in base if i["code"] != "ONSETS_UNORDERED")
    for perm in itertools.permutations(range(n)):
        if perm == tuple(range(n)):
            continue
        prow = [rows[j] for j in perm]
        pons = [onsets[j] for j in perm]
        got = check_file(env, rec, prow, columns, pons, label + ":permuted")
        if got is None:
            continue
        # file row (k+2) of the permuted file holds original row perm[k] -> original file row perm[k]+2
        relabel = {k + 2: perm[k] + 2 for k in range(n)}
        keys = sorted(issue_key(i, relabel) for i in got if i["code"] != "ONSETS_UNORDERED")
        if keys != base_keys:
            rec.violation(f"C07:permutation-changes-issues:{label}", rows=[list(r) for r in rows], permutation=perm,
                          base=base_keys[:8], permuted=keys[:8])
            return


def check_ref_permutations(env, rec, rows, label):
    """Files whose column r splices column c1 (curly braces): every row order reports the same issues, row labels moved
    with the rows (differential against the onset-ordered file; no hand-written expectation)."""
    columns = ("c1", "r")
    n = len(rows)
    onsets = [10 * (i + 1) for i in range(n)]

    def run(prow, pons):
        tsv, sj = build_file(prow, columns, pons)
        rec.n("evaluations")
        rec.n("transitions")
        rec.n("distinct_nontrivial")
        try:
            return tsv, validate_file(env, tsv, sj)
        except Exception as e:
            rec.violation(f"C07:raises:{type(e).__name__}:{label}", file=tsv, error=repr(e)[:300])
            return tsv, None
    tsv0, base = run(rows, onsets)
    if base is None:
        return
    # the onset-ordered file itself: a row whose c1 cell is an unknown tag reports it on that row, other rows do not
    for i, r in enumerate(rows):
        has = any(x["code"] == "TAG_INVALID" and x.get("ec_row") == i + 2 for x in base)
        want = r[0] in ("unknown", "badgroup") and r[1] != "na"
        if has != want:
            rec.violation(f"C07:spliced-cell-issue-on-wrong-row:{label}:sorted", file=tsv0, row=i + 2, expected=want, got=has)
            return
    base_keys = sorted(issue_key(i, {}) for i in base if i["code"] != "ONSETS_UNORDERED")
    for perm in itertools.permutations(range(n)):
        if perm == tuple(range(n)):
            continue
        tsv, got = run([rows[j] for j in perm], [onsets[j] for j in perm])
        if got is None:
            continue
        relabel = {k + 2: perm[k] + 2 for k in range(n)}
        keys = sorted(issue_key(i, relabel) for i in got if i["code"] != "ONSETS_UNORDERED")
        if keys != base_keys:
            rec.violation(f"C07:permutation-changes-issues:{label}", file=tsv, permutation=perm, base=base_keys[:8],
                          permuted=keys[:8])
            return
    rec.outcome("ref-ok")


def check_na_onsets(env, rec, kinds_, pattern, label):
    """One HED column; some rows have onset n/a.  A row with a time is judged as in the file without the n/a rows; a row
    without a time as a file of its own without onset column (string-level checks, temporal tags not allowed)."""
    n = len(kinds_)
    times = [None if p != "t" else 10.0 * (i + 1) for i, p in enumerate(pattern)]

    def make(idx, with_onset=True):
        lines = ["onset\tHED" if with_onset else "HED"]
        for i in idx:
            # a cell of the onset column that is not a number (n/a or any other text) is a row without a time
            lines.append(((pattern[i] if times[i] is None else str(times[i])) + "\t" if with_onset else "") + KINDS[kinds_[i]])
        return "\n".join(lines) + "\n"

    def errs(issues, relabel):
        return sorted((i["code"], relabel.get(i.get("ec_row"), i.get("ec_row"))) for i in issues if i["severity"] == ERR)
    tsv = make(range(n))
    rec.n("evaluations")
    rec.n("transitions")
    rec.n("distinct_nontrivial")
    try:
        got = errs(validate_file(env, tsv, "{}"), {})
        timed = [i for i in range(n) if times[i] is not None]
        want = errs(validate_file(env, make(timed), "{}"), {k + 2: i + 2 for k, i in enumerate(timed)}) if timed else []
        for i in range(n):
            if times[i] is None:
                want += errs(validate_file(env, make([i], with_onset=False), "{}"), {2: i + 2})
    except Exception as e:
        rec.violation(f"C07:raises:{type(e).__name__}:{label}", file=tsv, error=repr(e)[:300])
        return
    if got != sorted(want):
        rec.violation(f"C07:rows-without-time-change-the-issues:{label}", file=tsv, expected=sorted(want), got=got)
        return
    rec.outcome("na-onset")
    # the same rows in every file order (rows without a time between rows that are out of order): the issues follow the rows
    for perm in itertools.permutations(range(n)):
        if list(perm) == list(range(n)):
            continue
        ptsv = make(perm)
        rec.n("evaluations")
        try:
            pgot = errs(validate_file(env, ptsv, "{}"), {k + 2: i + 2 for k, i in enumerate(perm)})
        except Exception as e:
            rec.violation(f"C07:raises:{type(e).__name__}:{label}:permuted", file=ptsv, error=repr(e)[:300])
            return
        if pgot != got:
            rec.violation(f"C07:row-order-changes-the-issues:{label}", file=ptsv, in_time_order=got, this_order=pgot)
            return


def worker(rec, shard, nshards, thorough, seed):
    env = Env()
    kinds = list(KINDS)
    cases = []
    # F1 one row, three columns
    for combo in itertools.product(kinds, repeat=3):
        cases.append(("F1", [combo], ("HED", "c1", "c2")))
    # F2 two / three rows in one column
    for combo in itertools.product(kinds, repeat=2):
        cases.append(("F2", [(k,) for k in combo], ("HED",)))
    k3 = kinds if thorough else ["na", "tag", "unknown", "reptag", "delay", "onset", "offset", "inset"]
    for combo in itertools.product(k3, repeat=3):
        cases.append(("F2", [(k,) for k in combo], ("HED",)))
    # F3 two rows, two columns
    k7 = ["na", "tag", "unknown", "reptag", "circle", "onset", "badkey"] if not thorough else kinds
    for combo in itertools.product(k7, repeat=4):
        cases.append(("F3", [combo[:2], combo[2:]], ("HED", "c1")))
    for ci in core.shard_order(len(cases), shard, nshards, seed):
        label, rows, columns = cases[ci]
        rec.state((label, tuple(sorted(kind_of(r) for r in rows))))
        check_file(env, rec, rows, columns, None, label + ":no-onset")
        check_permutations(env, rec, rows, columns, label)
        if ci % 1009 == 0:
            rec.sample({"family": label, "file": build_file(rows, columns, [10 * (i + 1) for i in range(len(rows))])[0]})
    # F5 curly-brace splicing in files of three rows, every row order
    ref_cases = []
    c1k = ["na", "tag", "unknown", "reptag"] + (["group", "ext"] if thorough else [])
    for combo in itertools.product(c1k, repeat=3):
        for r0 in ("tag", "na"):
            ref_cases.append([(combo[0], r0), (combo[1], "tag"), (combo[2], "circle")])
    for ci in core.shard_order(len(ref_cases), shard, nshards, seed):
        rec.state(("F5", tuple(ref_cases[ci])))
        check_ref_permutations(env, rec, ref_cases[ci], "F5")
    # F6 rows whose onset is n/a among rows with a time
    na_cases = []
    k6 = ["tag", "reptag", "unknown", "onset", "offset"] + (["inset", "delay", "duration"] if thorough else [])
    for combo in itertools.product(k6, repeat=3):
        for pattern in itertools.product(("n/a", "t"), repeat=3):
            if "n/a" in pattern:
                na_cases.append((combo, pattern))
    # F6b the onset cell holds text that is neither a number nor n/a
    for combo in itertools.product(["tag", "reptag", "onset", "duration"], repeat=2):
        for text in ("abc", "1,5", "--", "1_000"):
            na_cases.append((combo, (text, "t")))
            na_cases.append((combo, ("t", text)))
    for ci in core.shard_order(len(na_cases), shard, nshards, seed):
        combo, pattern = na_cases[ci]
        rec.state(("F6", combo, pattern))
        check_na_onsets(env, rec, combo, pattern, "F6" if set(pattern) <= {"n/a", "t"} else "F6b")
    # F7 Delay / Duration groups whose value is wrong: reported on their row, never an exception
    bad_values = ["two s", "#", "2 parsecs", "", "2 MS", "2 s s", "-", "1e", "2 $"]
    bad_cases = [(tag, v, ons) for tag in ("Delay", "Duration", "delay") for v in bad_values
                 for ons in (None, ["10", "20"], ["n/a", "20"], ["20", "10"])]
    for ci in core.shard_order(len(bad_cases), shard, nshards, seed):
        tag, v, ons = bad_cases[ci]
        cell = f"({tag}/{v}, (Triangle))"
        tsv = ("onset\tHED\n" if ons else "HED\n")
        for i, txt in enumerate([cell, "Red"]):
            tsv += (f"{ons[i]}\t" if ons else "") + txt + "\n"
        rec.n("evaluations")
        rec.n("transitions")
        rec.n("distinct_nontrivial")
        rec.state(("F7", tag, v))
        try:
            issues = validate_file(env, tsv, "{}")
        except Exception as e:
            rec.violation(f"C07:raises:{type(e).__name__}:bad-delay-value", file=tsv, error=repr(e)[:300])
            continue
        must = set(env.basic_codes(cell))
        got = {i["code"] for i in issues if i["severity"] == ERR and i.get("ec_row") == 2}
        if not must <= got:
            rec.violation("C07:cell-error-missing:F7:bad-delay-value", file=tsv, expected_at_least=sorted(must), got=sorted(got))
        rec.outcome("bad-delay-value")
    # F8 sheets without a header row: columns are numbered from 0, rows from 1
    from hed.models.spreadsheet_input import SpreadsheetInput
    k8 = ["tag", "unknown", "reptag", "na", "ext"]
    sheet_cases = list(itertools.product(k8, repeat=4))
    for ci in core.shard_order(len(sheet_cases), shard, nshards, seed):
        combo = sheet_cases[ci]
        rows8 = [combo[:2], combo[2:]]
        tsv = "".join("\t".join(KINDS[k] for k in r) + "\n" for r in rows8)
        rec.n("evaluations")
        rec.n("transitions")
        rec.n("distinct_nontrivial")
        rec.state(("F8", combo))
        try:
            sheet = SpreadsheetInput(io.StringIO(tsv), file_type=".tsv", tag_columns=[0, 1], has_column_names=False, name="s.tsv")
            issues = sheet.validate(env.schema, extra_def_dicts=env.dd)
        except Exception as e:
            rec.violation(f"C07:raises:{type(e).__name__}:headerless-sheet", file=tsv, error=repr(e)[:300])
            continue
        for i, r in enumerate(rows8):
            want_cols = sorted(j for j, k in enumerate(r) if k == "unknown")
            got_cols = sorted((x.get("ec_column") for x in issues if x["code"] == "TAG_INVALID" and x.get("ec_row") == i + 1),
                              key=repr)
            if [repr(c) for c in got_cols] != [repr(c) for c in want_cols]:
                rec.violation("C07:cell-issue-location:headerless-sheet", file=tsv, row=i + 1, expected_columns=want_cols,
                              got=[(x.get("ec_row"), x.get("ec_column")) for x in issues if x["code"] == "TAG_INVALID"])
                break
            ext_cols = sorted(j for j, k in enumerate(r) if k == "ext")
            got_ext = sorted((x.get("ec_column") for x in issues if x["code"] == "TAG_EXTENDED" and x.get("ec_row") == i + 1),
                             key=repr)
            if [repr(c) for c in got_ext] != [repr(c) for c in ext_cols]:
                rec.violation("C07:cell-warning-location:headerless-sheet", file=tsv, row=i + 1, expected_columns=ext_cols,
                              got=[(x.get("ec_row"), x.get("ec_column")) for x in issues if x["code"] == "TAG_EXTENDED"])
                break
        rec.outcome("headerless-sheet")
        # F8x the same sheet as an Excel workbook whose n/a cells are left empty: no exception, the same issues
        # (a last column that is empty throughout does not exist in the workbook: asking for it is another question)
        if "na" in combo and not (combo[1] == "na" and combo[3] == "na"):
            import openpyxl
            import tempfile
            tmpdir = tempfile.mkdtemp(dir="/dev/shm", prefix="verif-c07x-")
            try:
                path = os.path.join(tmpdir, "s.xlsx")
                wb = openpyxl.Workbook()
                for r in rows8:
                    wb.active.append([None if k == "na" else KINDS[k] for k in r])
                wb.save(path)
                rec.n("evaluations")
                try:
                    xl = SpreadsheetInput(path, tag_columns=[0, 1], has_column_names=False, name="s.xlsx")
                    xissues = xl.validate(env.schema, extra_def_dicts=env.dd)
                except Exception as e:
                    rec.violation(f"C07:raises:{type(e).__name__}:excel-empty-cell", rows=[list(r) for r in rows8], error=repr(e)[:300])
                    continue

                def key(lst):
                    return sorted((x["code"], x.get("ec_row"), repr(x.get("ec_column"))) for x in lst)
                if key(xissues) != key(issues):
                    rec.violation("C07:excel-empty-cells-judged-differently-from-n/a", rows=[list(r) for r in rows8],
                                  tsv=key(issues), excel=key(xissues))
                rec.outcome("excel-sheet")
            finally:
                shutil.rmtree(tmpdir, ignore_errors=True)
    # F8c a tag column asked for under a name the sheet does not have (here: another letter case): reported, not ignored
    for header, asked in (("HED", "hed"), ("hed", "HED"), ("Hed", "HED"), ("HED", "tags")):
        tsv = f"{header}\tother\nZzqnonsense\tx\nRed\ty\n"
        rec.n("evaluations")
        rec.n("distinct_nontrivial")
        try:
            sheet = SpreadsheetInput(io.StringIO(tsv), file_type=".tsv", tag_columns=[asked], name="s.tsv")
            codes_ = [i["code"] for i in sheet.validate(env.schema, extra_def_dicts=env.dd)]
        except Exception as e:
            rec.violation(f"C07:raises:{type(e).__name__}:missing-tag-column", file=tsv, asked=asked, error=repr(e)[:300])
            continue
        if "HED_MISSING_REQUIRED_COLUMN" not in codes_:
            rec.violation("C07:tag-column-that-is-not-in-the-sheet-not-reported", header=header, asked=asked, codes=codes_)
        rec.outcome("missing-tag-column")
    # F9 the same two cells in swapped columns: which column holds the failing cell does not change what the row reports
    k9 = ["tag", "unknown", "reptag", "badgroup", "onset", "offset", "ext"]
    # (two temporal markers in one row are excluded: their order in the row is the order of the history, C10)
    swap_cases = [(a, b, ons) for a in k9 for b in k9 if a < b and not {a, b} <= {"onset", "offset"} for ons in (None, [10])]
    for ci in core.shard_order(len(swap_cases), shard, nshards, seed):
        a, b, ons = swap_cases[ci]
        res = []
        for cells in ((a, b), (b, a)):
            tsv, sj = build_file([cells], ("c1", "c2"), ons)
            rec.n("evaluations")
            rec.n("transitions")
            rec.n("distinct_nontrivial")
            try:
                issues = validate_file(env, tsv, sj)
            except Exception as e:
                rec.violation(f"C07:raises:{type(e).__name__}:F9", file=tsv, error=repr(e)[:300])
                res = None
                break
            res.append((tsv, sorted(i["code"] for i in issues if i["severity"] == ERR)))
        rec.state(("F9", a, b, ons is not None))
        if res and res[0][1] != res[1][1]:
            rec.violation("C07:row-codes-depend-on-which-column-holds-the-failing-cell", file=res[0][0], swapped=res[1][0],
                          codes=res[0][1], codes_swapped=res[1][1])
        rec.outcome("swap")
    # F10 one table object, validated, edited in place, validated again: every validation is that of the current cells
    from hed.models.hed_string import HedString as _HS
    from hed.models.tabular_input import TabularInput as _TI
    edit_rows = ["Red", "Zzq", "Square, Square", "Blue"]
    edits = [(1, "Green"), (0, "Zzqq"), (2, "Square"), (3, "(Circle, Circle)")]
    hist10 = [h for d in (2, 3) for h in itertools.product(["validate"] + list(range(len(edits))), repeat=d)]
    for hi in core.shard_order(len(hist10), shard, nshards, seed):
        hist = hist10[hi]
        if "validate" not in hist[1:]:
            continue
        cells = list(edit_rows)
        rec.n("evaluations")
        rec.n("transitions", len(hist))
        rec.n("distinct_nontrivial")
        rec.state(("F10", tuple(sorted(map(str, set(hist))))))
        try:
            def table(c):
                return _TI(io.StringIO("onset\tHED\n" + "".join(f"{10 * (i + 1)}\t{x}\n" for i, x in enumerate(c))), name="f.tsv")
            obj = table(cells)
            for step, op in enumerate(hist):
                if op == "validate":
                    got = sorted((i["code"], i.get("ec_row")) for i in obj.validate(env.schema, extra_def_dicts=env.dd))
                    want = sorted((i["code"], i.get("ec_row")) for i in table(cells).validate(env.schema, extra_def_dicts=env.dd))
                    if got != want:
                        rec.violation("C07:validation-after-edit-differs-from-fresh-table", history=[str(h) for h in hist],
                                      step=step, cells=cells, fresh=want, got=got)
                        break
                else:
                    r, text = edits[op]
                    obj.set_cell(r, 1, _HS(text, env.schema))
                    cells[r] = text
        except Exception as e:
            rec.violation(f"C07:raises:{type(e).__name__}:F10", history=[str(h) for h in hist], error=repr(e)[:300])
        rec.outcome("edit-history")
    # F4 unit spellings of Delay / Duration groups
    spell_cases = []
    for sp in UNIT_SPELLINGS:
        for tag in ("Delay", "Duration", "DELAY", "delay"):
            for other in ("tag", "onset", "na"):
                spell_cases.append((tag, sp, other))
    for ci in core.shard_order(len(spell_cases), shard, nshards, seed):
        tag, sp, other = spell_cases[ci]
        KINDS_local = f"({tag}/{sp}, (Triangle))"
        for onsets in (None, [10, 20]):
            tsv = ("onset\tHED\n" if onsets else "HED\n")
            for i, txt in enumerate([KINDS_local, KINDS[other]]):
                tsv += (f"{onsets[i]}\t" if onsets else "") + txt + "\n"
            rec.n("evaluations")
            try:
                issues = validate_file(env, tsv, "{}")
            except Exception as e:
                rec.violation(f"C07:raises:{type(e).__name__}:unit-spelling", file=tsv, error=repr(e)[:300])
                continue
            errs = sorted(i["code"] for i in issues if i["severity"] == ERR and i.get("ec_row") == 2)
            want = list(env.string_codes(KINDS_local))
            if onsets is None:
                want += ["TEMPORAL_TAG_ERROR"] * temporal_count(KINDS_local)
            if errs != sorted(want):
                rec.violation("C07:row-codes-differ:unit-spelling", file=tsv, expected=sorted(want), got=errs)
            rec.outcome("unit-spelling")
    # F4b the letter case of Delay where the delayed position decides: an Offset written before its Onset but delayed past it,
    # and an Onset delayed past its Offset; every spelling of the tag name gives the issues of the canonical spelling
    if shard == 0:
        for first, second, clean in (("(Def/A, Offset, {}/15 s)", "(Def/A, Onset)", True),
                                     ("({}/15 s, Def/A, Onset)", "(Def/A, Offset)", False),
                                     ("({}/5 s, (Def/A, Onset))", "(Def/A, Offset)", None)):
            answers = {}
            for tag in ("Delay", "DELAY", "delay", "dElAy"):
                tsv = f"onset\tHED\n10\t{first.format(tag)}\n20\t{second}\n"
                rec.n("evaluations")
                rec.n("distinct_nontrivial")
                try:
                    issues = validate_file(env, tsv, "{}")
                except Exception as e:
                    rec.violation(f"C07:raises:{type(e).__name__}:delay-case", file=tsv, error=repr(e)[:300])
                    continue
                answers[tag] = sorted((i["code"], i.get("ec_row")) for i in issues if i["severity"] == ERR)
                if clean is True and answers[tag]:
                    rec.violation("C07:delayed-marker-judged-at-its-row-time", file=tsv, got=answers[tag])
                if clean is False and not answers[tag]:
                    rec.violation("C07:delayed-marker-judged-at-its-row-time:error-missed", file=tsv)
                rec.outcome("delay-case:" + ("clean" if not answers[tag] else "errors"))
            if len({tuple(v) for v in answers.values()}) > 1:
                rec.violation("C07:issues-depend-on-letter-case-of-Delay", first=first, second=second, answers=answers)
            # the two rows (and a third, later one) written in every file order: the delayed group is shifted from its own row
            rows3 = [("10", first.format("Delay")), ("20", second), ("30", "Red")]
            base3 = None
            for perm in itertools.permutations(range(3)):
                tsv = "onset\tHED\n" + "".join(f"{rows3[i][0]}\t{rows3[i][1]}\n" for i in perm)
                rec.n("evaluations")
                rec.n("distinct_nontrivial")
                try:
                    issues = validate_file(env, tsv, "{}")
                except Exception as e:
                    rec.violation(f"C07:raises:{type(e).__name__}:delay-order", file=tsv, error=repr(e)[:300])
                    continue
                got = sorted((i["code"], perm[i["ec_row"] - 2]) for i in issues if i["severity"] == ERR and i.get("ec_row"))
                if base3 is None:
                    base3 = got
                elif got != base3:
                    rec.violation("C07:row-order-changes-the-issues:delayed-group", file=tsv, in_time_order=base3, this_order=got)
                    break
        # F11 late recordings: distinct onsets stay distinct time points however large they are (rows valid one by one, but
        # clashing if joined: the same tag twice, an Onset and its Offset); the issues are those of the same rows near zero
        late_rows = ["Red", "Red", "(Def/A, Onset)", "(Def/A, Offset)", "(Def/A, Onset)", "Blue, (Delay/0.0001 s, (Blue))"]
        for step in (0.0001, 0.001):
            base_late = None
            for t0 in (0.0, 5000.0, 1.0e5, 1.0e6, 1.7e9):
                for order in ("file", "reversed"):
                    idx = list(range(len(late_rows)))
                    if order == "reversed":
                        idx.reverse()
                    tsv = "onset\tHED\n" + "".join(f"{t0 + (i + 1) * step:.4f}\t{late_rows[i]}\n" for i in idx)
                    rec.n("evaluations")
                    rec.n("distinct_nontrivial")
                    try:
                        issues = validate_file(env, tsv, "{}")
                    except Exception as e:
                        rec.violation(f"C07:raises:{type(e).__name__}:late-onsets", file=tsv, error=repr(e)[:300])
                        continue
                    got = sorted((i["code"], idx[i["ec_row"] - 2]) for i in issues if i["severity"] == ERR and i.get("ec_row"))
                    if base_late is None:
                        base_late = got
                        rec.outcome("late-onsets:" + ("clean" if not got else "errors"))
                    elif got != base_late:
                        rec.violation("C07:issues-depend-on-the-size-of-the-onsets", file=tsv, near_zero=base_late, got=got)
        # four rows, a short delay: shifting the group from another row's onset moves it across its partner
        for rows4 in ([("5", "Green"), ("10", "(Def/A, Onset)"), ("20", "(Def/A, Offset, Delay/2 s)"), ("30", "Blue")],
                      [("5", "Green"), ("10", "(Def/A, Offset, Delay/2 s)"), ("20", "(Def/A, Onset)"), ("30", "(Def/A, Offset)")],
                      [("5", "(Def/A, Onset)"), ("10", "Green"), ("20", "(Delay/2 s, Def/A, Onset)"), ("21", "(Def/A, Offset)")]):
            base4 = None
            for perm in itertools.permutations(range(4)):
                tsv = "onset\tHED\n" + "".join(f"{rows4[i][0]}\t{rows4[i][1]}\n" for i in perm)
                rec.n("evaluations")
                rec.n("distinct_nontrivial")
                try:
                    issues = validate_file(env, tsv, "{}")
                except Exception as e:
                    rec.violation(f"C07:raises:{type(e).__name__}:delay-order", file=tsv, error=repr(e)[:300])
                    continue
                got = sorted((i["code"], perm[i["ec_row"] - 2]) for i in issues if i["severity"] == ERR and i.get("ec_row"))
                if base4 is None:
                    base4 = got
                    rec.outcome("delay-order:" + ("clean" if not got else "errors"))
                elif got != base4:
                    rec.violation("C07:row-order-changes-the-issues:delayed-group", file=tsv, in_time_order=base4, this_order=got)
                    break


def file_sequence_check(ctx):
    """E2: sequences of two and three files through one SpreadsheetValidator object: every file gets the issues a fresh
    validator gives it (nothing of an earlier file - open processes, failed rows, masks - carries over)."""
    from hed.models.tabular_input import TabularInput
    from hed.validator.spreadsheet_validator import SpreadsheetValidator
    env = Env()
    rec = ctx.rec
    files = {
        "opens-A": "onset\tHED\n1\t(Def/A, Onset)\n2\tRed\n",
        "closes-A": "onset\tHED\n1\tRed\n2\t(Def/A, Offset)\n",
        "failing-row": "onset\tHED\n1\tZzqnonsense, (Def/A, Onset)\n2\tBlue, Blue\n",
        "no-onsets": "HED\nRed\n(Def/A, Onset)\n",
        "na-onset": "onset\tHED\nn/a\tBlue, Blue\n2\t(Def/A, Inset)\n",
    }

    def verdict(v, name):
        issues = v.validate(TabularInput(io.StringIO(files[name]), name=name), def_dicts=env.dd, name=name)
        return sorted((i["code"], i.get("ec_row"), i.get("ec_column")) for i in issues)
    fresh = {n: verdict(SpreadsheetValidator(env.schema), n) for n in files}
    for d in (2, 3):
        for seq in itertools.product(files, repeat=d):
            rec.n("evaluations")
            rec.n("transitions", d)
            rec.n("distinct_nontrivial")
            rec.state(("file-sequence", tuple(sorted(set(seq)))))
            v = SpreadsheetValidator(env.schema)
            for step, n in enumerate(seq):
                try:
                    got = verdict(v, n)
                except Exception as e:
                    rec.violation(f"C07:raises:{type(e).__name__}:file-sequence", sequence=list(seq), step=step, error=repr(e)[:200])
                    break
                if got != fresh[n]:
                    rec.violation("C07:file-sequence:issues-depend-on-files-validated-before", sequence=list(seq), step=step,
                                  fresh=fresh[n], got=got)
                    break
    rec.outcome("file-sequences")


def run(ctx):
    ctx.rec.notes["bounds"] = {"kinds": KINDS, "unit_spellings": UNIT_SPELLINGS,
                               "families": "F1 1x3 all kinds; F2 2x1 all kinds, 3x1 (8 kinds quick / all thorough); "
                                           "F3 2x2 (7 kinds quick / all thorough); all row permutations with distinct onsets"}
    ctx.parallel(worker, ctx.thorough, ctx.seed)
    file_sequence_check(ctx)
    ctx.rec.counts["states"] = len(ctx.rec.states)


def replay(ctx, case):
    env = Env()
    if "file" not in case:
        return []
    try:
        issues = validate_file(env, case["file"], "{}")
    except Exception as e:
        return [("C07:replay:raises:" + type(e).__name__, {"file": case["file"]})]
    return [("C07:replay:issues", {"file": case["file"], "issues": [(i["code"], i.get("ec_row"), i.get("ec_column"))
                                                                       for i in issues]})]
