"""C20 - temporal context of every event equals the set of processes ongoing at that time.

Engine E2: every valid event history up to a bounded number of rows (items: Onset/Offset of two definition names,
Duration groups with several lengths and units, Delay-shifted Onsets and Durations, plain tags, empty rows; onsets from a
non-decreasing assignment over a grid, equal onsets included) is given to the real EventManager; its time points, start
lists, contexts and remainders are compared with a reference interval model written from the statement.
"""
import itertools

from mc import core
from props.c02 import ref_parse

ID = "C20"
LEVEL = "model_checking"
RULE = ("rows = 1-2 items from {Onset A, Onset B/x, Offset A, Offset B/x, Duration group (4 lengths x 3 unit forms), "
        "Delay-shifted Onset, Delay-shifted Duration, plain tag, empty}; files = every sequence of <= R rows x every "
        "non-decreasing onset assignment over the grid; only histories valid by the reference machine are kept; plus every "
        "non-monotone assignment (must be rejected).  state = reference set of ongoing processes after each time point; "
        "transition = one time point compared; non-trivial = history with at least one process that spans a later time point")
ASSUMPTIONS = [
    "rows that share an onset form one time point; only the first entry of a time point is judged (the trailing entries of a "
    "merged time point are empty place-holders whose context is not specified by the statement)",
    "durations are converted with the schema's unit factors (s = 1, ms = 0.001); a bare number means seconds (default unit)",
    "process texts are compared as canonical trees (sorted), each process identified by a distinct inner tag",
]

DEFS = ["(Definition/A, (Red))", "(Definition/B/#, (Label/#))"]
GRID = [0.0, 1.0, 2.0, 3.0]
FIXED_INNER = "Rectangle"
INNER = ["Square", "Circle", "Triangle", "Ellipse", "Cross", "Arrow", "Star", "Cube"]


def items_menu(thorough):
    m = [("on", "A"), ("on", "B/x"), ("off", "A"), ("off", "B/x"), ("tag",), ("empty",)]
    for L, unit in ((0.5, "s"), (1, "s"), (1.5, "s"), (2.5, "s"), (1500, "ms"), (1, "")):
        m.append(("dur", L, unit))
    m.append(("delay-on", "A", 0.5))
    m.append(("delay-on", "A", 1.0))
    m.append(("delay-dur", 1.0, 1.5))
    m.append(("on-group", "A"))      # Onset with the optional content group: listed with its content
    m.append(("inset", "A"))         # a marker inside an open process: ends nothing, starts nothing, stays in the annotation
    # Duration groups that all have the same content: distinct processes whose listed text is identical
    m.append(("dur-fixed", 1, "s"))
    m.append(("dur-fixed", 2.5, "s"))
    # a second value of the value-taking definition: B/x and B/y are different processes that may overlap
    m.append(("on", "B/y"))
    m.append(("off", "B/y"))
    if thorough:
        m.append(("inset", "B/x"))
        m.append(("delay-dur", 0.5, 0.5))
        m.append(("delay-on", "B/x", 1.5))
    return m


def seconds(L, unit):
    return L * {"s": 1.0, "ms": 0.001, "": 1.0}[unit]


def canon_text(text):
    bal, items = ref_parse(text)
    if not bal:
        return ("UNBALANCED", text)

    def conv(its):
        # a Delay tag left inside the text of a shifted process is not specified by the statement: ignored
        return tuple(sorted((("t", text[it[1]:it[2]].casefold()) if it[0] == "t" else ("g", conv(it[3]))) for it in its
                            if not (it[0] == "t" and text[it[1]:it[2]].casefold().startswith("delay/"))))
    return conv(items)


class Proc:
    __slots__ = ("kind", "name", "start", "end", "text")

    def __init__(self, kind, name, start, text):
        self.kind, self.name, self.start, self.text = kind, name, start, text
        self.end = None


def reference(rows):
    """rows: list of (onset, [items]).  Returns None when the history is not valid, else
    (times, per time point: base texts, context texts, remainder texts, number of entries)."""
    events = []   # (effective time, seq, kind, payload)
    seq = 0
    inner_i = 0
    remainder = []
    n_entries_extra = 0
    for ri, (t, items) in enumerate(rows):
        for it in items:
            seq += 1
            if it[0] == "on":
                events.append((t, seq, "on", it[1], None))
            elif it[0] == "on-group":
                tag = INNER[inner_i % len(INNER)]
                inner_i += 1
                events.append((t, seq, "on", it[1], tag))
            elif it[0] == "off":
                events.append((t, seq, "off", it[1], None))
            elif it[0] == "inset":
                events.append((t, seq, "inset", it[1], None))
            elif it[0] == "dur":
                tag = INNER[inner_i % len(INNER)]
                inner_i += 1
                events.append((t, seq, "dur", seconds(it[1], it[2]), tag))
            elif it[0] == "dur-fixed":
                events.append((t, seq, "dur", seconds(it[1], it[2]), FIXED_INNER))
            elif it[0] == "delay-on":
                events.append((t + it[2], seq, "on", it[1], None))
            elif it[0] == "delay-dur":
                tag = INNER[inner_i % len(INNER)]
                inner_i += 1
                events.append((t + it[1], seq, "dur", it[2], tag))
            elif it[0] == "tag":
                events.append((t, seq, "tag", "Blue", None))
    times = sorted({t for t, _ in rows} | {e[0] for e in events})
    idx = {t: i for i, t in enumerate(times)}
    procs = []
    open_by_name = {}
    base = [[] for _ in times]
    rem = [[] for _ in times]
    for k, t in enumerate(times):
        used = set()
        for e in sorted([e for e in events if e[0] == t], key=lambda e: e[1]):
            _, _, kind, a, b = e
            if kind in ("on", "off"):
                key = a.casefold()
                if key in used:
                    return None            # same name twice in one time point: not a valid history
                used.add(key)
                if kind == "off":
                    p = open_by_name.pop(key, None)
                    if p is None:
                        return None        # unmatched offset
                    p.end = k
                else:
                    p = open_by_name.pop(key, None)
                    if p is not None:
                        p.end = k
                    text = f"Def/{a}" if b is None else f"(Def/{a},({b}))"
                    p = Proc("on", key, k, text)
                    procs.append(p)
                    open_by_name[key] = p
                    base[k].append(text)
            elif kind == "dur":
                if b == FIXED_INNER:
                    if ("fixed", a) in used:
                        return None        # the same group twice in one time point: a repeated group, not a valid annotation
                    used.add(("fixed", a))
                p = Proc("dur", None, k, f"(({b}))")
                end_time = t + a
                p.end = next((j for j, tt in enumerate(times) if tt >= end_time), len(times))
                procs.append(p)
                base[k].append(p.text)
            elif kind == "tag":
                rem[k].append(a)
            elif kind == "inset":
                key = a.casefold()
                if key in used or key not in open_by_name:
                    return None            # an Inset needs an open process of that name (and the name once per time point)
                used.add(key)
                rem[k].append(f"(Def/{a}, Inset)")
    for p in procs:
        if p.end is None:
            p.end = len(times)
    ctx = [[] for _ in times]
    for p in procs:
        for j in range(p.start + 1, min(p.end, len(times))):
            ctx[j].append(p.text)
    spans = any(p.end - p.start > 1 for p in procs)
    return times, base, ctx, rem, spans


def row_text(items, inner_start):
    parts = []
    i = inner_start
    for it in items:
        if it[0] == "on":
            parts.append(f"(Def/{it[1]}, Onset)")
        elif it[0] == "on-group":
            parts.append(f"(Def/{it[1]}, Onset, ({INNER[i % len(INNER)]}))")
            i += 1
        elif it[0] == "off":
            parts.append(f"(Def/{it[1]}, Offset)")
        elif it[0] == "inset":
            parts.append(f"(Def/{it[1]}, Inset)")
        elif it[0] == "dur":
            unit = (" " + it[2]) if it[2] else ""
            L = it[1]
            Ls = str(int(L)) if float(L).is_integer() else str(L)
            parts.append(f"(Duration/{Ls}{unit}, ({INNER[i % len(INNER)]}))")
            i += 1
        elif it[0] == "dur-fixed":
            L = it[1]
            parts.append(f"(Duration/{int(L) if float(L).is_integer() else L} {it[2]}, ({FIXED_INNER}))")
        elif it[0] == "delay-on":
            parts.append(f"(Def/{it[1]}, Onset, Delay/{it[2]} s)")
        elif it[0] == "delay-dur":
            parts.append(f"(Delay/{it[1]} s, Duration/{it[2]} s, ({INNER[i % len(INNER)]}))")
            i += 1
        elif it[0] == "tag":
            parts.append("Blue")
    return (", ".join(parts) if parts else "n/a"), i


class Env:
    def __init__(self, ns=""):
        from hed import load_schema_version
        from hed.models.definition_dict import DefinitionDict
        from props.c09 import add_prefix
        self.ns = ns
        self.schema = load_schema_version(ns + "8.3.0")
        self.dd = DefinitionDict([add_prefix(d, ns) for d in DEFS], self.schema)


def multiset(text):
    """Top-level items of a comma-joined string as a sorted list of canonical trees."""
    if not text:
        return []
    c = canon_text(text)
    return sorted(c) if isinstance(c, tuple) and c and c[0] != "UNBALANCED" else [c]


def check_history(env, rec, rows):
    import pandas as pd
    from hed.models.tabular_input import TabularInput
    from hed.tools.analysis.event_manager import EventManager
    from hed.errors.exceptions import HedFileError
    ref = reference(rows)
    if ref is None:
        rec.n("skipped_invalid_history")
        return
    times, base, ctx, rem, spans = ref
    hed, i = [], 0
    for t, items in rows:
        txt, i = row_text(items, i)
        hed.append(txt)
    from props.c09 import add_prefix, strip_prefix
    df = pd.DataFrame({"onset": [str(t) for t, _ in rows], "HED": [add_prefix(h, env.ns) if h != "n/a" else h for h in hed]})
    rec.n("evaluations")
    if spans:
        rec.n("distinct_nontrivial")
    try:
        em = EventManager(TabularInput(df), env.schema, extra_defs=env.dd)
        if env.ns:
            # compare without the prefix: every tag of the file carries it, so must every listed process
            class _View:
                pass
            view = _View()
            view.onsets = em.onsets
            # every tag of a listed process carries the prefix of the schema (checked before it is stripped for comparison)
            for label_, seq_ in (("start list", em.base), ("context", em.contexts)):
                for x in seq_:
                    if str(x) and add_prefix(strip_prefix(str(x), env.ns), env.ns) != str(x):
                        rec.violation("C20:namespace:listed-process-lost-the-schema-prefix", where=label_, text=str(x),
                                      rows=hed, onsets=[t for t, _ in rows], namespace=env.ns)
                        return
            view.base = [strip_prefix(str(x), env.ns) for x in em.base]
            view.contexts = [strip_prefix(str(x), env.ns) for x in em.contexts]
            view.hed_strings = [strip_prefix(str(x), env.ns) for x in em.hed_strings]
            real_em, em = em, view
    except Exception as e:
        rec.violation("C20:raises:" + type(e).__name__, rows=hed, onsets=[t for t, _ in rows], error=repr(e)[:300])
        rec.outcome("raises")
        return
    onsets = [float(x) for x in em.onsets]
    where = {"rows": hed, "onsets": [t for t, _ in rows]}
    if env.ns:
        where["namespace"] = env.ns
    if onsets != sorted(onsets):
        rec.violation("C20:entries-not-in-time-order", got=onsets, **where)
        return
    if sorted(set(onsets)) != times:
        rec.violation("C20:time-points-differ", expected=times, got=sorted(set(onsets)), **where)
        return
    first = {}
    for j, t in enumerate(onsets):
        first.setdefault(t, j)
    idx_of = {t: k for k, t in enumerate(times)}
    for k, t in enumerate(times):
        j = first[t]
        rec.n("transitions")
        rec.state((tuple(sorted(ctx[k])),))
        got_base = multiset(em.base[j])
        got_ctx = multiset(em.contexts[j])
        got_rem = multiset(str(em.hed_strings[j]))
        want_base = sorted(x for b in base[k] for x in multiset(b))
        want_ctx = sorted(x for b in ctx[k] for x in multiset(b))
        want_rem = sorted(x for b in rem[k] for x in multiset(b))
        if got_ctx != want_ctx:
            rec.violation(f"C20:context-differs:{kinds(rows)}", time=t, expected=ctx[k], got=em.contexts[j], **where)
            rec.outcome("context-differs")
            return
        if got_base != want_base:
            rec.violation(f"C20:start-list-differs:{kinds(rows)}", time=t, expected=base[k], got=em.base[j], **where)
            return
        if got_rem != want_rem:
            rec.violation(f"C20:remainder-differs:{kinds(rows)}", time=t, expected=rem[k], got=str(em.hed_strings[j]), **where)
            return
    # the other entries of a time point (rows sharing its onset): nothing is listed or left there, and what they show as
    # context is the context of the time point - in particular never a process that starts at this very time point
    for j, t in enumerate(onsets):
        k = idx_of[t]
        if j == first[t]:
            continue
        rec.n("transitions")
        want_ctx = sorted(x for b in ctx[k] for x in multiset(b))
        if multiset(em.contexts[j]) != want_ctx:
            rec.violation(f"C20:context-differs:shared-onset-entry:{kinds(rows)}", time=t, entry=j, expected=ctx[k],
                          got=em.contexts[j], **where)
            return
        if multiset(em.base[j]) or multiset(str(em.hed_strings[j])):
            rec.violation(f"C20:shared-onset-entry-not-empty:{kinds(rows)}", time=t, entry=j, base=em.base[j],
                          remainder=str(em.hed_strings[j]), **where)
            return
    # event_list: every process listed at its start entry with the right end
    try:
        from hed.tools.analysis.hed_tag_manager import HedTagManager
        objs = HedTagManager(real_em if env.ns else em).get_hed_objs(include_context=True)
        for k, t in enumerate(times):
            j = first[t]
            text = str(objs[j]) if objs[j] else ""
            has_ctx = "event-context" in text.casefold()
            if has_ctx != bool(ctx[k]):
                rec.violation("C20:tag-manager-context-presence", time=t, expected=ctx[k], got=text, **where)
                return
    except Exception as e:
        rec.violation("C20:tag-manager-raises:" + type(e).__name__, error=repr(e)[:200], **where)
        return
    # the same table handed over with row labels 1..n (a frame cut out of a longer one): labels are not positions, and the
    # listing is the same
    if any("Delay/" in h for h in hed):
        try:
            df2 = df.copy()
            df2.index = range(1, len(df2) + 1)
            em2 = EventManager(TabularInput(df2), env.schema, extra_defs=env.dd)
            a = ([float(x) for x in real_em.onsets] if env.ns else onsets, [str(x) for x in (real_em if env.ns else em).base],
                 [str(x) for x in (real_em if env.ns else em).contexts], [str(x) for x in (real_em if env.ns else em).hed_strings])
            b = ([float(x) for x in em2.onsets], [str(x) for x in em2.base], [str(x) for x in em2.contexts],
                 [str(x) for x in em2.hed_strings])
            rec.n("transitions")
            if a != b:
                rec.violation("C20:row-labels-change-the-listing", labels="1..n", default_labels=repr(a)[:300], got=repr(b)[:300], **where)
                return
        except Exception as e:
            rec.violation("C20:row-labels:raises:" + type(e).__name__, labels="1..n", error=repr(e)[:200], **where)
            return
    rec.outcome("ok:" + str(max(len(c) for c in ctx) if ctx else 0))


def kinds(rows):
    ks = sorted({it[0] for _, items in rows for it in items})
    eq = len({t for t, _ in rows}) < len(rows)
    return "+".join(ks) + (":equal-onsets" if eq else "")


def nondecreasing(n, grid=None):
    grid = grid or GRID
    for combo in itertools.combinations_with_replacement(range(len(grid)), n):
        yield [grid[i] for i in combo]


def worker(rec, shard, nshards, nrows, thorough, seed):
    env = Env()
    menu = items_menu(thorough)
    singles = [(m,) for m in menu if m[0] != "empty"] + [()]
    delay_items = [m for m in menu if m[0].startswith("delay")]
    pairs = [(a, b) for a in menu[:6] for b in menu[:4] if a[0] != "empty" and b[0] != "empty"] + \
        [(a, b) for a in delay_items for b in delay_items if a != b] if thorough else \
        [(("on", "A"), ("on", "B/x")), (("on", "A"), ("off", "B/x")), (("off", "A"), ("on", "B/x")),
         (("on", "A"), ("dur", 1.5, "s")), (("tag",), ("off", "A")), (("dur", 1, "s"), ("dur", 2.5, "s")),
         (("on", "A"), ("off", "A")),
         # two Delay-shifted groups in one row (each shifted by its own delay only)
         (("delay-on", "A", 0.5), ("delay-on", "B/x", 1.0)), (("delay-on", "A", 1.0), ("delay-dur", 1.0, 1.5)),
         (("delay-dur", 0.5, 0.5), ("delay-dur", 1.0, 1.5)), (("delay-on", "B/x", 1.0), ("delay-on", "A", 0.5))]
    rowkinds = singles + pairs
    # the longest histories of the quick tier use a reduced row menu (every item kind once, the multi-Delay pairs kept)
    keep = {("on", "A"), ("on", "B/x"), ("off", "A"), ("off", "B/x"), ("tag",), ("dur", 1.5, "s"), ("dur", 1500, "ms"),
            ("delay-on", "A", 0.5), ("delay-dur", 1.0, 1.5), ("dur-fixed", 2.5, "s"), ("on", "B/y"), ("off", "B/y")}
    small = [i for i, rk in enumerate(rowkinds) if (len(rk) == 0 or (len(rk) == 1 and rk[0] in keep)
                                                    or (len(rk) == 2 and rk[0][0].startswith("delay")))]
    keep4 = {("on", "A"), ("off", "A"), ("on", "B/x"), ("tag",), ("dur", 1.5, "s"), ("delay-on", "A", 0.5), ("delay-dur", 1.0, 1.5),
             ("dur-fixed", 2.5, "s")}
    tiny = [i for i, rk in enumerate(rowkinds) if len(rk) == 0 or (len(rk) == 1 and rk[0] in keep4)]
    cases = []
    for n in range(1, nrows + 1):
        # histories of three and more rows use the reduced row menu (the full menu to the 3rd power times the onset grids is
        # ~1e7 files); thorough adds the fourth row over eight row kinds, the larger row menu, and the larger onset grid for
        # histories of up to two rows
        menu_n = range(len(rowkinds)) if n <= 2 else small if n == 3 else tiny
        for combo in itertools.product(menu_n, repeat=n):
            cases.append(combo)
    # the histories of up to two rows also under a namespace prefix (every tag written ts:...)
    env_ns = Env("ts:")
    short = [c for c in cases if len(c) <= 2]
    for ci in core.shard_order(len(short), shard, nshards, seed):
        combo = short[ci]
        for ons in nondecreasing(len(combo), GRID[:3]):
            check_history(env_ns, rec, [(t, list(rowkinds[k])) for t, k in zip(ons, combo)])
    for ci in core.shard_order(len(cases), shard, nshards, seed):
        combo = cases[ci]
        for ons in nondecreasing(len(combo), GRID if thorough and len(combo) <= 2 else GRID[:3]):
            rows = [(t, list(rowkinds[k])) for t, k in zip(ons, combo)]
            check_history(env, rec, rows)
        if ci % 3001 == 0:
            rec.sample({"rows": [row_text(list(rowkinds[k]), 0)[0] for k in combo], "onset_grid": GRID})
    # non-monotone onsets must be rejected - also when an n/a onset sits between (or beside) the rows that are out of order
    if shard == 0:
        import pandas as pd
        from hed.models.tabular_input import TabularInput
        from hed.tools.analysis.event_manager import EventManager
        from hed.errors.exceptions import HedFileError
        for ons in itertools.product(["0.0", "1.0", "2.0", "n/a"], repeat=3):
            nums = [float(x) for x in ons if x != "n/a"]
            if "n/a" not in ons or nums == sorted(nums):
                continue
            df = pd.DataFrame({"onset": list(ons), "HED": ["Blue", "Green", "Red"]})
            rec.n("evaluations")
            try:
                EventManager(TabularInput(df), env.schema, extra_defs=env.dd)
                rec.violation("C20:unordered-onsets-accepted:with-n/a", onsets=list(ons))
            except HedFileError:
                rec.outcome("unordered-rejected")
            except Exception as e:
                rec.violation("C20:unordered-onsets-wrong-exception:" + type(e).__name__, onsets=list(ons), error=repr(e)[:200])
        import pandas as pd
        from hed.models.tabular_input import TabularInput
        from hed.tools.analysis.event_manager import EventManager
        from hed.errors.exceptions import HedFileError
        for ons in itertools.product(GRID[:3], repeat=3):
            if list(ons) == sorted(ons):
                continue
            df = pd.DataFrame({"onset": [str(t) for t in ons], "HED": ["Blue", "(Def/A, Onset)", "Red"]})
            rec.n("evaluations")
            try:
                EventManager(TabularInput(df), env.schema, extra_defs=env.dd)
                rec.violation("C20:unordered-onsets-accepted", onsets=list(ons))
            except HedFileError:
                rec.outcome("unordered-rejected")
            except Exception as e:
                rec.violation("C20:unordered-onsets-wrong-exception:" + type(e).__name__, onsets=list(ons))


# ---- E2: observer histories on one manager ------------------------------------------------------------------------------
OBS_DEFS = ["(Definition/Cv, (Condition-variable/Speed, Red))", "(Definition/Pl, (Blue))"]
OBS_FILES = [
    [("1.0", "Sensory-event, Condition-variable/Load, Task, (Def/Cv, Onset)"), ("2.0", "Agent-action, Def/Cv, Green"),
     ("3.0", "(Def/Cv, Offset), Task, (Duration/2 s, (Condition-variable/Fast, Square))"), ("6.0", "Circle")],
    [("1.0", "(Def/Pl, Onset), Condition-variable/A"), ("1.0", "Task, Blue"), ("2.5", "(Def/Pl, Offset), Def/Cv")],
    [("0.5", "Red"), ("1.5", "(Delay/1 s, (Condition-variable/Late, Green)), Task")],
]
OBS_FILES.append([("1.0", "(Def/Pl, Onset, (Task, Pink))"), ("2.0", "Red"), ("3.0", "(Def/Cv, Onset, (Circle))"),
                  ("4.0", "(Duration/3 s, (Condition-variable/X, Purple)), Green"), ("5.0", "Blue"), ("6.0", "(Def/Pl, Offset)"),
                  ("9.0", "Square")])
OBS_OPS = ["unfold", "unfold:cv", "unfold:cv+task", "objs", "objs:cv", "objs-noctx:task"]


def observer_histories(ctx, depth):
    """Every sequence of observers up to depth on one EventManager: each answer equals the answer of a fresh manager, and
    base / contexts / remaining annotations are the same after the history as before it."""
    import pandas as pd
    from hed import load_schema_version
    from hed.models.definition_dict import DefinitionDict
    from hed.models.tabular_input import TabularInput
    from hed.tools.analysis.event_manager import EventManager
    from hed.tools.analysis.hed_tag_manager import HedTagManager
    rec = ctx.rec
    schema = load_schema_version("8.3.0")
    dd = DefinitionDict(OBS_DEFS, schema)
    types = {"cv": ["Condition-variable"], "cv+task": ["Condition-variable", "Task"], "task": ["Task"]}

    def build(rows):
        df = pd.DataFrame({"onset": [r[0] for r in rows], "HED": [r[1] for r in rows]})
        return EventManager(TabularInput(df), schema, extra_defs=dd)

    def snapshot(em):
        return ([str(x) for x in em.base], [str(x) for x in em.contexts], [str(x) for x in em.hed_strings],
                [float(x) for x in em.onsets])

    def observe(em, op):
        kind, _, arg = op.partition(":")
        rt = types.get(arg, [])
        if kind == "unfold":
            a, b, c = em.unfold_context(remove_types=list(rt))
            return ([str(x) for x in a], [str(x) for x in b], [str(x) for x in c])
        mgr = HedTagManager(em, remove_types=list(rt))
        return [str(x) if x else "" for x in mgr.get_hed_objs(include_context=(kind == "objs"))]

    for fi, rows in enumerate(OBS_FILES):
        try:
            fresh = {op: observe(build(rows), op) for op in OBS_OPS}
            initial = snapshot(build(rows))
            # a process is listed in later contexts in the form in which it is listed where it starts - also when types are
            # filtered out of it (every item of a context occurs in the start list of an earlier entry)
            for op in OBS_OPS:
                if not op.startswith("unfold"):
                    continue
                _, base_l, ctx_l = fresh[op]
                started = []
                for j in range(len(base_l)):
                    for item in multiset(ctx_l[j]):
                        rec.n("transitions")
                        if item not in started:
                            rec.violation("C20:observer:context-lists-a-process-in-another-form-than-its-start-list", file=rows,
                                          observer=op, entry=j, context=ctx_l[j], start_lists=base_l[:j])
                            break
                    started += multiset(base_l[j])
        except Exception as e:
            rec.violation("C20:observer:raises:" + type(e).__name__, file=rows, error=repr(e)[:300])
            continue
        for d in range(1, depth + 1):
            for hist in itertools.product(OBS_OPS, repeat=d):
                rec.n("evaluations")
                rec.n("transitions", d)
                if d > 1:
                    rec.n("distinct_nontrivial")
                rec.state(("observer", fi, tuple(sorted(set(hist)))))
                try:
                    em = build(rows)
                    for step, op in enumerate(hist):
                        got = observe(em, op)
                        if got != fresh[op]:
                            rec.violation("C20:observer:answer-depends-on-earlier-observations", file=rows, history=list(hist),
                                          step=step, fresh=fresh[op], got=got)
                            break
                    else:
                        if snapshot(em) != initial:
                            now = snapshot(em)
                            which = [n for n, a, b in zip(("base", "contexts", "remaining", "onsets"), initial, now) if a != b]
                            rec.violation("C20:observer:manager-state-changed:" + "+".join(which), file=rows,
                                          history=list(hist), before=initial[2], after=now[2])
                except Exception as e:
                    rec.violation("C20:observer:raises:" + type(e).__name__, file=rows, history=list(hist), error=repr(e)[:300])
                rec.outcome("observer-history")


def run(ctx):
    nrows = ctx.pick(3, 4)
    ctx.rec.notes["bounds"] = {"rows": nrows, "grid": GRID[:3], "grid_up_to_two_rows": GRID if ctx.thorough else GRID[:3], "items": [repr(m) for m in items_menu(ctx.thorough)]}
    ctx.parallel(worker, nrows, ctx.thorough, ctx.seed)
    observer_histories(ctx, ctx.pick(2, 3))
    ctx.rec.counts["states"] = len(ctx.rec.states)
    ctx.rec.notes["skipped_invalid_history"] = ctx.rec.counts.get("skipped_invalid_history", 0)


def replay(ctx, case):
    import pandas as pd
    from hed.models.tabular_input import TabularInput
    from hed.tools.analysis.event_manager import EventManager
    env = Env()
    df = pd.DataFrame({"onset": [str(t) for t in case["onsets"]], "HED": case["rows"]})
    try:
        em = EventManager(TabularInput(df), env.schema, extra_defs=env.dd)
    except Exception as e:
        return [("C20:replay:raises:" + type(e).__name__, {"rows": case["rows"]})]
    return [("C20:replay:state", {"rows": case["rows"], "onsets": [float(x) for x in em.onsets], "base": em.base,
                                  "contexts": em.contexts})]
