"""C09 - definitions expand to their declared content and shrink back losslessly.

E1: every definition candidate of a shape grammar against the acceptance predicate taken literally from the statement;
    every Def-expand group whose content is a permutation / single edit of the expansion (accept / reject).
E2: breadth-first search over histories of {expand, shrink, copy, validate, print, sort} on real HedString objects rebuilt
    by replay, compared step by step with a reference model on plain nested lists.
"""
import itertools
import re

from mc import core
from props.c02 import ref_parse

ID = "C09"
LEVEL = "model_checking"
RULE = ("acceptance: every candidate = name form x content form x extra sibling x placement (+ every ordered pair for "
        "duplicates); Def-expand: every permutation and every single edit of each expansion; histories: every sequence of "
        "<= d operations from {expand, shrink, copy-and-continue, validate, print, sort} on every start annotation. "
        "state = (canonical printed tree of the live object); transition = one operation on the real object; non-trivial = "
        "history containing an expand or shrink")
ASSUMPTIONS = [
    "the acceptance predicate is the statement read literally; a non-valued definition containing two or more '#' satisfies "
    "the biconditional and is therefore not judged in the 'must be accepted' direction",
    "'reported' means check_for_definitions returns an issue and DefinitionDict(list).issues is non-empty",
    "trees are compared up to sibling order (definition contents are stored sorted)",
]

ERR = 1
DEFS = ["(Definition/Pl, (Red, Square))", "(Definition/Vt/#, (Label/#, Blue))", "(Definition/Vu/#, (Distance/# m, Green))",
        "(Definition/Ne, (Red, (Blue, (Green))))", "(Definition/Em)",
        # the position of the filled-in tag among its siblings depends on the value
        "(Definition/Pa/#, (Label/#, Label/m))", "(Definition/Cm/#, ((Speed/# mph, Square), (Speed/5 mph, Triangle)))"]
REFDEFS = {"pl": (False, ["Red", "Square"]), "vt": (True, ["Label/#", "Blue"]), "vu": (True, ["Distance/# m", "Green"]),
           "ne": (False, ["Red", ["Blue", ["Green"]]]), "em": (False, None),
           "pa": (True, ["Label/#", "Label/m"]), "cm": (True, [["Speed/# mph", "Square"], ["Speed/5 mph", "Triangle"]])}


# ---- reference model on nested lists ---------------------------------------------------------------

def to_tree(text):
    bal, items = ref_parse(text)
    assert bal, text

    def conv(its):
        return [text[it[1]:it[2]] if it[0] == "t" else conv(it[3]) for it in its]
    return conv(items)


def canon(tree):
    return tuple(sorted((("t", x) if isinstance(x, str) else ("g", canon(x))) for x in tree))


def subst(content, value):
    return [x.replace("#", value) if isinstance(x, str) else subst(x, value) for x in content]


DEF_RE = re.compile(r"^def/([^/]+)(?:/(.*))?$", re.IGNORECASE)


def ref_expand(tree):
    out = []
    for x in tree:
        if isinstance(x, str):
            m = DEF_RE.match(x)
            if m and m.group(1).casefold() in REFDEFS:
                takes, content = REFDEFS[m.group(1).casefold()]
                value = m.group(2)
                if takes == bool(value):
                    name = "Def-expand/" + x[4:]
                    grp = [name]
                    if content is not None:
                        grp.append(subst(content, value) if takes else content)
                    out.append(grp)
                    continue
            out.append(x)
        else:
            if any(isinstance(c, str) and c.casefold().startswith("def-expand/") for c in x):
                out.append(x)       # already expanded groups are left alone
            else:
                out.append(ref_expand(x))
    return out


def ref_shrink(tree):
    out = []
    for x in tree:
        if isinstance(x, str):
            out.append(x)
        else:
            de = [c for c in x if isinstance(c, str) and c.casefold().startswith("def-expand/")]
            if de:
                out.append("Def/" + de[0][len("def-expand/"):])
            else:
                out.append(ref_shrink(x))
    return out


# ---- part B: histories --------------------------------------------------------------------------

STARTS = [
    "Def/Pl",
    "Def/Vt/abc, Circle",
    "(Def/Vu/3, Circle)",
    "((Def/Ne, Circle), Triangle)",
    "(((Def/Pl)))",
    "Def/Pl, (Def/Vt/x, (Def/Ne))",
    "(Def-expand/Pl, (Red, Square))",
    "Def/Pl, ((Def-expand/Vt/abc, (Label/abc, Blue)), Circle)",
    "Def/Em, Circle",
    "((Def-expand/Em), Circle)",
    "Def/Nope, Circle",
    "(Def/Vu/3, (Def/Vu/4, Circle)), Def/Vt/q",
]
VALID_STARTS = {s for s in STARTS if "Nope" not in s}
OPS = ["expand", "shrink", "copy", "validate", "print", "sort"]


def add_prefix(text, ns):
    """Put the namespace prefix in front of every tag of an annotation text."""
    if not ns:
        return text
    return re.sub(r"(^|[(,]\s*)(?=[^\s(),])", lambda m: m.group(1) + ns, text)


def strip_prefix(text, ns):
    if not ns or text is None:
        return text
    return re.sub(r"(^|[(,]\s*)" + re.escape(ns), r"\1", text)


class Env:
    def __init__(self, ns=""):
        from hed import load_schema_version
        from hed.models.definition_dict import DefinitionDict
        from hed.models.hed_string import HedString
        from hed.validator import HedValidator
        self.ns = ns
        self.schema = load_schema_version(ns + "8.3.0")
        self.dd = DefinitionDict([add_prefix(d, ns) for d in DEFS], self.schema)
        self.defs_ok = (not self.dd.issues) and len(self.dd.defs) == len(DEFS)
        self.HedString = HedString
        self.validator = HedValidator(self.schema, def_dicts=self.dd)


def printed(hs):
    try:
        return str(hs)
    except RecursionError:
        return None


def run_history(env, rec, start, hist):
    hs = env.HedString(add_prefix(start, env.ns), env.schema, env.dd)
    model = to_tree(start)
    originals = []   # (object, model canon at copy time) for copies left behind
    for step, op in enumerate(hist):
        where = {"start": start, "history": list(hist[:step + 1])}
        try:
            if op == "expand":
                hs.expand_defs()
                model = ref_expand(model)
            elif op == "shrink":
                hs.shrink_defs()
                model = ref_shrink(model)
            elif op == "copy":
                originals.append((hs, canon(model)))
                hs = hs.copy()
            elif op == "validate":
                issues = env.validator.validate(hs, allow_placeholders=False)
                errs = [i["code"] for i in issues if i["severity"] == ERR]
                if errs and start in VALID_STARTS:
                    rec.violation("C09:history:valid-annotation-rejected:" + errs[0], codes=errs, **where)
                    return
            elif op == "print":
                str(hs)
                hs.get_as_short()
                hs.get_as_long()
            elif op == "sort":
                hs.sort()
        except RecursionError:
            rec.violation("C09:history:cyclic-tree-after:" + op, **where)
            return
        except Exception as e:
            rec.violation(f"C09:history:raises:{type(e).__name__}:{op}", error=repr(e)[:200], **where)
            return
        rec.n("transitions")
        text = strip_prefix(printed(hs), env.ns)
        if env.ns:
            where["namespace"] = env.ns
        if text is None:
            rec.violation("C09:history:cyclic-tree-after:" + op, **where)
            return
        try:
            got = canon(to_tree(text))
        except AssertionError:
            rec.violation("C09:history:unbalanced-print-after:" + op, printed=text, **where)
            return
        want = canon(model)
        rec.state(got)
        if got != want:
            rec.violation(f"C09:history:{op}:result-differs-from-reference", printed=text, expected=repr(model), **where)
            return
        for obj, c in originals:
            t = strip_prefix(printed(obj), env.ns)
            if t is None or canon(to_tree(t)) != c:
                rec.violation(f"C09:history:original-changed-by-{op}-on-copy", original_now=t, **where)
                return
    rec.n("evaluations")
    if "expand" in hist or "shrink" in hist:
        rec.n("distinct_nontrivial")
    rec.outcome("history-ok:" + ("exp" if "Def-expand" in (printed(hs) or "") else "shr"))


def worker_hist(rec, shard, nshards, depth, seed):
    env = Env()
    if not env.defs_ok:
        rec.violation("C09:definitions-of-the-harness-not-accepted", issues=[i["message"] for i in env.dd.issues],
                      defs=list(env.dd.defs))
        return
    hists = []
    for d in range(1, depth + 1):
        hists += list(itertools.product(OPS, repeat=d))
    # only maximal histories and those shorter ones are all prefixes -> run length==depth plus all shorter (cheap)
    cases = [(s, h) for s in STARTS for h in hists if len(h) == depth]
    # the same under a namespace prefix (every tag written ts:...), one level shallower
    env_ns = Env("ts:")
    if not env_ns.defs_ok:
        rec.violation("C09:definitions-of-the-harness-not-accepted", namespace="ts:",
                      issues=[i["message"] for i in env_ns.dd.issues])
    cases_ns = [(s, h) for s in STARTS for h in hists if len(h) == max(1, depth - 1)] if env_ns.defs_ok else []
    for ci in core.shard_order(len(cases_ns), shard, nshards, seed):
        s, h = cases_ns[ci]
        run_history(env_ns, rec, s, h)
    for ci in core.shard_order(len(cases), shard, nshards, seed):
        s, h = cases[ci]
        run_history(env, rec, s, h)
        if ci % 7919 == 1:
            rec.sample({"start": s, "history": list(h)})


# ---- part A: acceptance ---------------------------------------------------------------------------

NAMES = [("Nm", "nm", False, True), ("Nm/#", "nm", True, True), ("Nm/x", None, False, False), ("Nm#x", None, False, False),
         ("Nm/x/#", None, True, False), ("Nm/#/#", None, True, False), ("Nm#/#", None, True, False)]
# content: (text of 0..2 groups, total '#', exactly-one-on-value-tag, has inner def, ngroups)
CONTENTS = [
    ("", 0, False, False, 0),
    ("(Red, Blue)", 0, False, False, 1),
    ("(Label/#, Blue)", 1, True, False, 1),
    ("(Distance/# m, Blue)", 1, True, False, 1),
    ("(Red, (Blue, (Label/#)))", 1, True, False, 1),
    ("(Label/#, Description/#)", 2, False, False, 1),
    ("(Label/##, Blue)", 2, False, False, 1),
    # the same placeholder tag twice (in two sub-groups, and in another letter case): two '#', not one
    ("(Label/#, (Label/#, Red))", 2, False, False, 1),
    ("(Label/#, (label/#, Red))", 2, False, False, 1),
    ("(Red/#, Blue)", 1, False, False, 1),
    ("(Event/#, Blue)", 1, False, False, 1),
    ("(Def/Pl, Red)", 0, False, True, 1),
    ("((Def-expand/Pl, (Red, Square)), Blue)", 0, False, True, 1),
    ("(Label/#, Def/Pl)", 1, True, True, 1),
    ("((Definition/In, (Red)), Blue)", 0, False, True, 1),
    ("(Red, (Blue, (Green)))", 0, False, False, 1),
    ("(Red), (Blue)", 0, False, False, 2),
    ("(Label/#), (Blue)", 1, True, False, 2),
]
EXTRAS = ["", "Green", "Label/#"]
PLACEMENTS = ["top", "nested", "bare", "double-nested"]


def candidate(name, content, extra, placement):
    inner = "Definition/" + name
    parts = [inner] + ([extra] if extra else []) + ([content] if content else [])
    body = ", ".join(parts)
    if placement == "top":
        return f"({body})"
    if placement == "nested":
        return f"(Circle, ({body}))"
    if placement == "double-nested":
        return f"(({body}))"
    return body


def predicate(nm, ct, extra, placement):
    """The statement's necessary condition for acceptance."""
    name, key, valued, name_ok = nm
    text, nhash, one_on_value, inner_def, ngroups = ct
    if placement != "top" or extra or ngroups > 1 or not name_ok or inner_def:
        return False
    exactly_one_on_value_tag = (nhash == 1 and one_on_value)
    return exactly_one_on_value_tag == valued


def worker_accept(rec, shard, nshards, seed):
    from hed.models.definition_dict import DefinitionDict
    env = Env()
    cases = list(itertools.product(NAMES, CONTENTS, EXTRAS, PLACEMENTS))
    for ci in core.shard_order(len(cases), shard, nshards, seed):
        nm, ct, extra, placement = cases[ci]
        text = candidate(nm[0], ct[0], extra, placement)
        pred = predicate(nm, ct, extra, placement)
        rec.n("evaluations")
        rec.n("transitions", 2)
        rec.n("distinct_nontrivial")
        try:
            dd = DefinitionDict(DEFS[:1], env.schema)   # Pl available for inner Def
            before = set(dd.defs)
            issues = dd.check_for_definitions(env.HedString(text, env.schema))
            accepted = sorted(set(dd.defs) - before)
            dd2 = DefinitionDict(DEFS[:1] + [text], env.schema)
            accepted2 = sorted(set(dd2.defs) - before)
            issues2 = dd2.issues
        except Exception as e:
            rec.violation("C09:accept:raises:" + type(e).__name__, text=text, error=repr(e)[:200])
            continue
        rec.state(("accept", text))
        rec.outcome(f"accept:{bool(accepted)}:pred:{pred}")
        if accepted != accepted2:
            rec.violation("C09:accept:constructor-differs-from-check_for_definitions", text=text, a=accepted, b=accepted2)
        if accepted and not pred:
            rec.violation("C09:accept:illegal-definition-accepted:" + why(nm, ct, extra, placement), text=text,
                          accepted=accepted)
        elif accepted and nm[1] is not None and accepted != [nm[1]]:
            rec.violation("C09:accept:stored-under-wrong-name", text=text, accepted=accepted)
        clean = (ct[1] == 0 and not nm[2]) or (ct[1] == 1 and ct[2] and nm[2])
        if pred and clean and not accepted:
            rec.violation("C09:accept:legal-definition-rejected", text=text, issues=[i["message"][:80] for i in issues])
        if not accepted and placement == "top":
            # a candidate group that is refused must be reported through both channels
            if not any(i["severity"] == ERR for i in issues):
                rec.violation("C09:accept:refused-without-issue", text=text)
            if not issues2:
                rec.violation("C09:accept:refused-without-issue-in-constructor", text=text)
        if ci % 97 == 0:
            rec.sample({"candidate": text, "predicate": pred, "accepted": accepted})
    # duplicates: ordered pairs of legal definitions with equal / case-variant / different names
    legal = ["(Definition/Du, (Red))", "(Definition/du, (Blue))", "(Definition/DU/#, (Label/#))", "(Definition/Du)",
             "(Definition/Ot, (Green))"]
    for a, b in itertools.permutations(legal, 2):
        rec.n("evaluations")
        dd = DefinitionDict(None, env.schema)
        i1 = dd.check_for_definitions(env.HedString(a, env.schema))
        first = {k: str(v.contents) for k, v in dd.defs.items()}
        i2 = dd.check_for_definitions(env.HedString(b, env.schema))
        same = "/Ot" not in a and "/Ot" not in b
        dd2 = DefinitionDict([a, b], env.schema)
        if i1:
            rec.violation("C09:dup:first-definition-reported", a=a, b=b)
        if same:
            now = {k: str(v.contents) for k, v in dd.defs.items()}
            if now != first or len(dd2.defs) != 1:
                rec.violation("C09:dup:duplicate-not-ignored", a=a, b=b, defs=now)
            if not i2 or not dd2.issues:
                rec.violation("C09:dup:duplicate-not-reported", a=a, b=b, via_check=bool(i2), via_constructor=bool(dd2.issues))
        else:
            if i2 or len(dd.defs) != 2 or dd2.issues:
                rec.violation("C09:dup:distinct-names-confused", a=a, b=b)
        # the same two definitions coming from two dictionaries that are merged
        try:
            dd3 = DefinitionDict([DefinitionDict([a], env.schema), DefinitionDict([b], env.schema)], env.schema)
            merged = {k: str(v.contents) for k, v in dd3.defs.items()}
            if same and (merged != first or not dd3.issues):
                rec.violation("C09:dup:merged-dictionaries:duplicate-not-ignored-or-not-reported", a=a, b=b, defs=merged,
                              reported=bool(dd3.issues))
            if not same and (len(merged) != 2 or dd3.issues):
                rec.violation("C09:dup:merged-dictionaries:distinct-names-confused", a=a, b=b, defs=merged)
        except Exception as e:
            rec.violation("C09:dup:merged-dictionaries:raises:" + type(e).__name__, a=a, b=b, error=repr(e)[:200])
        rec.outcome("dup:" + str(same))
    # the same for names with letters whose lower-case form and case-folded form differ (sharp s, final sigma, ligatures)
    for nm, nm2 in (("Stra\u00dfe", "Stra\u00dfe"), ("Ma\u00df", "MASS"), ("Ma\u00df", "Ma\u00df"), ("\ufb01x", "\ufb01x"), ("\ufb01x", "FIX"),
                    ("\u03bf\u03b4\u03bf\u03c2", "\u03bf\u03b4\u03bf\u03c2"), ("\u03bf\u03b4\u03bf\u03c2", "\u039f\u0394\u039f\u03a3")):
        for suffix, c1, c2 in (("", "(Red)", "(Blue)"), ("/#", "(Label/#)", "(Label/#, Red)")):
            a, b = f"(Definition/{nm}{suffix}, {c1})", f"(Definition/{nm2}{suffix}, {c2})"
            rec.n("evaluations")
            rec.n("distinct_nontrivial")
            try:
                dd = DefinitionDict(None, env.schema)
                i1 = dd.check_for_definitions(env.HedString(a, env.schema))
                first = {k: str(v.contents) for k, v in dd.defs.items()}
                i2 = dd.check_for_definitions(env.HedString(b, env.schema))
                dd2 = DefinitionDict([a, b], env.schema)
            except Exception as e:
                rec.violation("C09:dup:raises:" + type(e).__name__, a=a, b=b, error=repr(e)[:200])
                continue
            if i1 or len(first) != 1:
                rec.outcome("dup:name-not-accepted")      # the name itself is not legal here: nothing to compare
                continue
            now = {k: str(v.contents) for k, v in dd.defs.items()}
            if now != first or len(dd2.defs) != 1:
                rec.violation("C09:dup:duplicate-not-ignored:non-ascii-name", a=a, b=b, defs=now)
            if not i2 or not dd2.issues:
                rec.violation("C09:dup:duplicate-not-reported:non-ascii-name", a=a, b=b, via_check=bool(i2),
                              via_constructor=bool(dd2.issues))
            rec.outcome("dup:non-ascii")


def why(nm, ct, extra, placement):
    if placement != "top":
        return "placement-" + placement
    if extra:
        return "extra-sibling"
    if ct[4] > 1:
        return "two-content-groups"
    if not nm[3]:
        return "name-with-slash-or-hash"
    if ct[3]:
        return "inner-def"
    return "placeholder-count"


# ---- part C: Def-expand acceptance -----------------------------------------------------------------

def render_tree(tree):
    return ", ".join(x if isinstance(x, str) else "(" + render_tree(x) + ")" for x in tree)


def all_orders(tree):
    per = [[x] if isinstance(x, str) else [v for v in all_orders(x)] for x in tree]
    for combo in itertools.product(*per):
        for perm in itertools.permutations(combo):
            yield list(perm)


def single_edits(tree):
    """Every tree obtained by dropping / replacing / adding one leaf."""
    for i, x in enumerate(tree):
        if isinstance(x, str):
            if len(tree) > 1:
                yield tree[:i] + tree[i + 1:]
            yield tree[:i] + ["Triangle"] + tree[i + 1:]
        else:
            for e in single_edits(x):
                yield tree[:i] + [e] + tree[i + 1:]
    yield tree + ["Triangle"]


def worker_defexpand(rec, shard, nshards, seed):
    env = Env()
    cases = []
    for key, (takes, content) in REFDEFS.items():
        if content is None:
            continue
        for name in {"pl": ["Pl"], "vt": ["Vt/abc"], "vu": ["Vu/3"], "ne": ["Ne"], "pa": ["Pa/a", "Pa/zz"],
                     "cm": ["Cm/3", "Cm/7"]}[key]:
            value = name.partition("/")[2]
            exp = subst(content, value) if takes else content
            for order in all_orders(exp):
                for ctx_fmt in ("{}", "(Circle, {})", "{}, Circle"):
                    cases.append(("accept", ctx_fmt.format(f"(Def-expand/{name}, ({render_tree(order)}))")))
                    cases.append(("accept", ctx_fmt.format(f"(({render_tree(order)}), Def-expand/{name})")))
            for ed in single_edits(exp):
                if canon(ed) == canon(exp):
                    continue        # replacing 'Triangle' by 'Triangle' is no alteration
                for order in itertools.islice(all_orders(ed), 6):
                    cases.append(("reject", f"(Def-expand/{name}, ({render_tree(order)}))"))
                    # the same altered content written before the tag
                    cases.append(("reject", f"(({render_tree(order)}), Def-expand/{name})"))
            if takes:
                other = subst(content, "zz9" if key == "vt" else "4")
                cases.append(("reject", f"(Def-expand/{name}, ({render_tree(other)}))"))
                # the content with its '#' still in it is not the expansion for value v (judged where placeholders are allowed,
                # i.e. the way sidecar entries are validated, so that the '#' itself is no error)
                cases.append(("reject-ph", f"(Def-expand/{name}, ({render_tree(content)}))"))
                cases.append(("reject-ph", f"(Circle, (Def-expand/{name}, ({render_tree(content)})))"))
    for ci in core.shard_order(len(cases), shard, nshards, seed):
        want, text = cases[ci]
        rec.n("evaluations")
        rec.n("transitions")
        rec.n("distinct_nontrivial")
        try:
            hs = env.HedString(text, env.schema, env.dd)
            codes = [i["code"] for i in env.validator.validate(hs, allow_placeholders=(want == "reject-ph"))
                     if i["severity"] == ERR]
        except Exception as e:
            rec.violation("C09:def-expand:raises:" + type(e).__name__, text=text, error=repr(e)[:200])
            continue
        if want == "reject-ph":
            rec.state(("dx", text))
            rec.outcome(f"def-expand:{want}:{'DEF_EXPAND_INVALID' in codes}")
            if "DEF_EXPAND_INVALID" not in codes:
                rec.violation("C09:def-expand:unfilled-placeholder-content-accepted", text=text, codes=codes)
            continue
        rec.state(("dx", text))
        rec.outcome(f"def-expand:{want}:{'DEF_EXPAND_INVALID' in codes}")
        if want == "accept" and codes:
            rec.violation("C09:def-expand:matching-content-rejected:" + codes[0], text=text, codes=codes)
        if want == "reject" and "DEF_EXPAND_INVALID" not in codes:
            rec.violation("C09:def-expand:altered-content-accepted", text=text, codes=codes)
        # shrinking an accepted expansion and expanding again gives an accepted group
        if want == "accept" and not codes:
            t2 = str(env.HedString(text, env.schema, env.dd).shrink_defs().expand_defs())
            hs2 = env.HedString(t2, env.schema, env.dd)
            c2 = [i["code"] for i in env.validator.validate(hs2, allow_placeholders=False) if i["severity"] == ERR]
            if c2:
                rec.violation("C09:def-expand:re-expanded-group-rejected", text=text, reexpanded=t2, codes=c2)
        if ci % 211 == 0:
            rec.sample({"def-expand": text, "expected": want})


def bulk_check(ctx):
    import pandas as pd
    from hed.models import df_util
    env = Env()
    rec = ctx.rec
    valid = [s for s in STARTS if "Nope" not in s]
    # cells in which every Def tag is written in another letter case (tag names are case-insensitive)
    valid += ["def/Pl", "DEF/Vt/abc, Circle", "(dEf/Vu/3, Circle)", "def/Pl, (DEF/Vt/x, (def/Ne))",
              "(def-expand/Pl, (Red, Square))", "Circle, (DEF-EXPAND/Vt/abc, (Label/abc, Blue))"]
    ser = pd.Series(valid, dtype=str)
    df_util.expand_defs(ser, env.schema, env.dd)
    for s, got in zip(valid, ser):
        want = canon(ref_expand(to_tree(s)))
        rec.n("evaluations")
        if canon(to_tree(got)) != want:
            rec.violation("C09:bulk:expand-differs", start=s, got=got)
    ser2 = ser.copy()
    df_util.shrink_defs(ser2, env.schema)
    for s, got in zip(valid, ser2):
        want = canon(ref_shrink(ref_expand(to_tree(s))))
        rec.n("evaluations")
        if canon(to_tree(got)) != want:
            rec.violation("C09:bulk:shrink-differs", start=s, got=got)


    # the same through the table form: a frame with two annotation columns and one that must stay as it is
    import warnings
    half = len(valid) // 2
    n = min(half, len(valid) - half)
    frame = pd.DataFrame({"a": valid[:n], "b": valid[half:half + n], "keep": valid[:n]}, dtype=str)
    for cols in (["a", "b"], ["b"]):
        df = frame.copy()
        with warnings.catch_warnings():
            warnings.simplefilter("ignore")
            df_util.expand_defs(df, env.schema, env.dd, cols)
            expanded = df.copy()
            df_util.shrink_defs(df, env.schema, cols)
        for c in ("a", "b", "keep"):
            for s, e, g in zip(frame[c], expanded[c], df[c]):
                rec.n("evaluations")
                rec.n("distinct_nontrivial")
                want_e = canon(ref_expand(to_tree(s))) if c in cols else canon(to_tree(s))
                want_s = canon(ref_shrink(ref_expand(to_tree(s)))) if c in cols else canon(to_tree(s))
                if canon(to_tree(e)) != want_e:
                    rec.violation("C09:bulk:frame-expand-differs", start=s, column=c, columns=cols, got=e)
                elif canon(to_tree(g)) != want_s:
                    rec.violation("C09:bulk:frame-shrink-differs", start=s, column=c, columns=cols, got=g)


    # and through the table object itself (its HED column is the annotation column)
    from hed.models.tabular_input import TabularInput
    try:
        tab = TabularInput(pd.DataFrame({"onset": [str(i) for i in range(len(valid))], "HED": list(valid)}))
        with warnings.catch_warnings():
            warnings.simplefilter("ignore")
            tab.expand_defs(env.schema, env.dd)
            exp_cells = list(tab.dataframe["HED"])
            tab.shrink_defs(env.schema)
            shr_cells = list(tab.dataframe["HED"])
        for s, e, g in zip(valid, exp_cells, shr_cells):
            rec.n("evaluations")
            rec.n("distinct_nontrivial")
            if canon(to_tree(e)) != canon(ref_expand(to_tree(s))):
                rec.violation("C09:bulk:table-object-expand-differs", start=s, got=e)
            elif canon(to_tree(g)) != canon(ref_shrink(ref_expand(to_tree(s)))):
                rec.violation("C09:bulk:table-object-shrink-differs", start=s, got=g)
    except Exception as e:
        rec.violation("C09:bulk:table-object-raises:" + type(e).__name__, error=repr(e)[:200])


def run(ctx):
    depth = ctx.pick(4, 6)
    ctx.rec.notes["bounds"] = {"history_depth": depth, "starts": STARTS, "ops": OPS, "definitions": DEFS,
                               "acceptance_candidates": len(NAMES) * len(CONTENTS) * len(EXTRAS) * len(PLACEMENTS)}
    ctx.parallel(worker_accept, ctx.seed)
    ctx.parallel(worker_defexpand, ctx.seed)
    ctx.parallel(worker_hist, depth, ctx.seed)
    bulk_check(ctx)
    ctx.rec.counts["states"] = len(ctx.rec.states)


def replay(ctx, case):
    rec = core.Rec()
    env = Env()
    if "history" in case:
        run_history(env, rec, case["start"], tuple(case["history"]))
    elif "text" in case:
        hs = env.HedString(case["text"], env.schema, env.dd)
        codes = [i["code"] for i in env.validator.validate(hs, allow_placeholders=False)]
        return [("C09:replay", {"text": case["text"], "codes": codes})]
    return [(fp, d) for fp, lst in rec.viol.items() for d in lst[:1]]
