"""C01 - string validation verdict agrees with the HED rules.

Engine E1.  Two exhaustive axes (DESIGN 3.2):
  vocabulary axis - every tag of the schema (from the independent XML model) x spellings x 6 contexts, valid, plus every
                    tag-dependent single-rule mutation with the specification code expected for it;
  structure axis  - every tree shape up to the bound over a small collision pool (valid iff no duplicate siblings, else
                    TAG_EXPRESSION_REPEATED) plus every delimiter / character mutation at every position, plus
                    reserved-tag templates (Def, Def-expand, Onset/Offset/Inset, Duration/Delay, Event-context).
Oracle: expected verdicts come from mc.schema_model / the specification table below, never from hed.
"""
import itertools
import os

from mc import core, schema_model, hedgen
from mc.hedgen import Leaf, render

ID = "C01"
LEVEL = "model_checking"
RULE = ("vocabulary axis: every non-reserved tag x {short, every partial path, long} x 6 contexts + every applicable "
        "tag-level mutation; structure axis: all forests with <= n leaves, <= g groups, depth <= d over a 5-leaf collision "
        "pool + every delimiter mutation at every delimiter position + reserved-tag templates; both placeholder "
        "settings.  distinct case = (schema, text, allow_placeholders); non-trivial = mutated or containing a group; "
        "state = (schema, case kind, tag or shape); transition = one validation executed on the implementation")
ASSUMPTIONS = [
    "expected codes are the HED specification (Appendix B) codes as listed in EXPECTED; where the specification names two "
    "codes for one fault either is accepted",
    "reserved tags (Def, Def-expand, Definition, Onset, Offset, Inset, Duration, Delay, Event-context and their subtrees) "
    "are exercised through templates only and excluded from the generic pools",
    "warnings are not judged",
]

ERR = 1  # ErrorSeverity.ERROR

EXPECTED = {
    "unknown-tag": {"TAG_INVALID"},
    "unknown-term-in-path": {"TAG_INVALID", "TAG_EXTENSION_INVALID"},
    "wrong-parent": {"TAG_INVALID", "TAG_EXTENSION_INVALID"},
    "forbidden-extension": {"TAG_EXTENSION_INVALID"},
    "extension-is-existing-term": {"TAG_EXTENSION_INVALID", "TAG_INVALID"},
    "bare-require-child": {"TAG_REQUIRES_CHILD"},
    "unknown-unit": {"UNITS_INVALID"},
    "foreign-unit": {"UNITS_INVALID"},
    "non-numeric-value": {"VALUE_INVALID"},
    "forbidden-char-in-value": {"VALUE_INVALID", "CHARACTER_INVALID"},
    "duplicate-tag": {"TAG_EXPRESSION_REPEATED"},
    "duplicate-group": {"TAG_EXPRESSION_REPEATED"},
    "duplicate-sibling": {"TAG_EXPRESSION_REPEATED"},
    "placeholder-not-allowed": {"PLACEHOLDER_INVALID"},
    "placeholder-on-non-value-tag": {"PLACEHOLDER_INVALID", "TAG_EXTENSION_INVALID"},
    "extra-open-paren": {"PARENTHESES_MISMATCH"},
    "extra-close-paren": {"PARENTHESES_MISMATCH"},
    "swapped-parens": {"PARENTHESES_MISMATCH"},
    "double-comma": {"TAG_EMPTY"},
    "leading-comma": {"TAG_EMPTY"},
    "trailing-comma": {"TAG_EMPTY"},
    "empty-group": {"TAG_EMPTY"},
    "comma-missing-before-open": {"COMMA_MISSING"},
    "comma-missing-after-close": {"COMMA_MISSING"},
    "bracket": {"CHARACTER_INVALID"},
    "brace": {"CHARACTER_INVALID", "SIDECAR_BRACES_INVALID"},
    "tilde": {"TILDES_UNSUPPORTED", "CHARACTER_INVALID"},
    "illegal-char-in-tag": {"CHARACTER_INVALID"},
    "undeclared-def": {"DEF_INVALID"},
    "def-missing-value": {"DEF_INVALID"},
    "def-extra-value": {"DEF_INVALID"},
    "def-expand-extra-value": {"DEF_EXPAND_INVALID"},
    "def-bad-value": {"DEF_INVALID", "VALUE_INVALID"},
    "def-expand-altered": {"DEF_EXPAND_INVALID"},
    "def-expand-ungrouped": {"DEF_EXPAND_INVALID", "TAG_GROUP_ERROR"},
    "taggroup-tag-ungrouped": {"TAG_GROUP_ERROR"},
    "toplevel-tag-ungrouped": {"TAG_GROUP_ERROR", "TEMPORAL_TAG_ERROR"},
    "toplevel-tag-nested": {"TAG_GROUP_ERROR", "TEMPORAL_TAG_ERROR"},
    "two-toplevel-tags": {"TAG_GROUP_ERROR", "TEMPORAL_TAG_ERROR"},
    "unique-twice": {"TAG_NOT_UNIQUE"},
    "temporal-without-def": {"TEMPORAL_TAG_ERROR"},
    "offset-with-group": {"TEMPORAL_TAG_ERROR"},
    "temporal-extra-tag": {"TEMPORAL_TAG_ERROR"},
    "duration-without-group": {"TEMPORAL_TAG_ERROR"},
    "duration-extra-tag": {"TEMPORAL_TAG_ERROR"},
}


class Setup:
    """Everything derived from one schema file (built in the parent, inherited by forked workers)."""

    def __init__(self, fname, namespace=""):
        from hed.schema import load_schema
        from hed.models.definition_dict import DefinitionDict
        from hed.validator import HedValidator
        self.label = fname + ("@" + namespace if namespace else "")
        path = os.path.join(core.SCHEMA_DATA, fname)
        self.model = schema_model.load(path)
        self.schema = load_schema(path)
        self.vocab = v = hedgen.Vocab(self.model)
        self.plain3 = v.plain_leaves(4)
        self.S = self.plain3[0] if self.plain3 else None
        self.defs_ok = False
        self.def_dict = None
        self.unit_tag = next((t for t in v.value if v.unit_classes(t) and "numericClass" in v.value_classes(t)
                              and v.good_value(t) and "requireChild" not in t.attrs), None)
        self.text_tag = next((t for t in v.value if not v.unit_classes(t) and
                              ({"nameClass", "textClass"} & set(v.value_classes(t)))), None)
        self.ext_tag = next((t for t in v.ext_ok if "requireChild" not in t.attrs and not t.children
                             and "deprecatedFrom" not in t.attrs), None)
        self.def_strings = []
        if all(v.has[n] for n in ("Def", "Def-expand", "Definition")) and len(self.plain3) >= 3:
            p1, p2, p3 = (t.name for t in self.plain3[:3])
            self.def_strings = [f"(Definition/Pl, ({p1}, {p2}))", f"(Definition/Ne, ({p1}, ({p2}, {p3})))"]
            self.def_content = {"Pl": f"({p1}, {p2})", "Ne": f"({p1}, ({p2}, {p3}))"}
            if self.text_tag is not None:
                self.def_strings.append(f"(Definition/Vt/#, ({self.text_tag.name}/#, {p3}))")
                self.def_content["Vt"] = f"({self.text_tag.name}/@, {p3})"
            if self.unit_tag is not None:
                unit = v.a_unit(self.unit_tag)
                self.def_strings.append(f"(Definition/Vu/#, ({self.unit_tag.name}/# {unit}, {p1}))")
                self.def_content["Vu"] = f"({self.unit_tag.name}/@ {unit}, {p1})"
            try:
                dd = DefinitionDict(self.def_strings, self.schema)
                if not dd.issues and len(dd.defs) == len(self.def_strings):
                    self.def_dict = dd
                    self.defs_ok = True
            except Exception:
                pass
        self.validator = HedValidator(self.schema, def_dicts=self.def_dict)
        self._unit_orc = None
        self.pool = self._pool()

    def unit_oracle_bad(self, tag):
        """Value texts with a bad unit part, from the unit grammar oracle of props.c11 (independent XML reading)."""
        from props import c11
        if self._unit_orc is None:
            self._unit_orc = c11.Oracle(self.model)
        orc = self._unit_orc
        out = []
        for u, uc in orc.units_of(tag):
            if "unitPrefix" in u.attrs or " " in u.name:
                continue
            cands = [f"3.5 {u.name}s"] if "unitSymbol" in u.attrs else []
            cands += [f"{u.name} 3.5", f"3.5 x {u.name}"]
            for c in cands:
                unit_text = c.split(" ", 1)[1] if c[0].isdigit() else c
                if c[0].isdigit() and " x " not in c and orc.derivations(tag, unit_text):
                    continue
                out.append(c)
            if len(out) >= 3:
                break
        return out[:3]

    def _pool(self):
        pool = [Leaf(t) for t in self.plain3[:2]]
        if self.ext_tag is not None:
            pool.append(Leaf(self.ext_tag, "/Zzqext-1"))
        if self.unit_tag is not None:
            pool.append(Leaf(self.unit_tag, self.vocab.good_value(self.unit_tag)))
        elif self.text_tag is not None:
            pool.append(Leaf(self.text_tag, self.vocab.good_value(self.text_tag)))
        if self.defs_ok:
            pool.append(Leaf(raw="Def/Pl"))
        return pool


# ---------------------------------------------------------------------------------------------------
# case generation: (kind, text, expected or None, placeholder settings)

def contexts(u, s):
    return [u, f"({u})", f"(({u}))", f"{s}, {u}", f"({s}, {u})", f"({s}, ({u}))"]


def vocab_cases(st, t):
    """All cases of the vocabulary axis for one tag."""
    v = st.vocab
    s = st.S.name if st.S is not t else st.plain3[1].name
    nterms = len(t.terms())
    forms = ["short"] + list(range(1, nterms - 1)) + (["long"] if nterms > 1 else [])
    out = []
    is_plain = "requireChild" not in t.attrs
    val = v.good_value(t) if t.value_child is not None else None
    units = []
    if is_plain:
        units.append(("bare", ""))
    if val is not None:
        units.append(("value", val))
    elif t.value_child is None and t.has("extensionAllowed") and is_plain:
        units.append(("extension", "/Zzqext-1"))
    for uk, suf in units:
        for f in forms:
            u = Leaf(t, suf).text(f)
            for ci, c in enumerate(contexts(u, s)):
                out.append((f"valid:{uk}:ctx{ci}", c, None, (False, True)))
    # ---- mutations (context 0 and 4)
    def both(kind, u, ph=(False, True)):
        out.append((kind, u, EXPECTED[kind], ph))
        out.append((kind, f"({s}, {u})", EXPECTED[kind], ph))

    if nterms >= 2:
        terms = t.terms()
        both("unknown-term-in-path", "/".join(terms[:-1] + ["Zzqx", terms[-1]]))
        wrong = st.plain3[2] if st.plain3[2] is not t and st.plain3[2] not in t.ancestors() else st.plain3[3]
        both("wrong-parent", wrong.name + "/" + t.name)
    if t.value_child is None:
        if not t.has("extensionAllowed"):
            both("forbidden-extension", t.name + "/Zzqext-1")
            both("forbidden-extension", t.long + "/Zzqext-1")
            both("placeholder-on-non-value-tag", t.name + "/#", (True,))
        else:
            other = st.plain3[1] if st.plain3[1] is not t else st.plain3[2]
            both("extension-is-existing-term", t.name + "/" + other.name)
    if "requireChild" in t.attrs:
        both("bare-require-child", t.name)
        both("bare-require-child", t.long)
    if t.value_child is not None:
        vcs, ucs = v.value_classes(t), v.unit_classes(t)
        if val is not None:
            both("placeholder-not-allowed", t.name + "/#", (False,))
            out.append(("valid:placeholder:ctx0", t.name + "/#", None, (True,)))
            out.append(("valid:placeholder:ctx4", f"({s}, {t.long}/#)", None, (True,)))
        if ucs and val is not None:
            both("unknown-unit", t.name + "/3.5 zzq")
            if st.text_tag is not None and st.text_tag is not t:
                # a placeholder in another tag of the annotation does not excuse this one (placeholders allowed)
                both("unknown-unit", st.text_tag.name + "/#, " + t.name + "/3.5 zzq", (True,))
            fu = v.foreign_unit(t)
            if fu:
                both("foreign-unit", t.name + "/3.5 " + fu)
            # unit spellings that look right and are not: the plural of a symbol, a unit in front of the number, a word
            # between number and unit (each only where the independent unit grammar of C11 finds no reading)
            for ps in st.unit_oracle_bad(t):
                both("unknown-unit", t.name + "/" + ps)
        if vcs == ["numericClass"]:
            unit = v.a_unit(t) if ucs else None
            both("non-numeric-value", t.name + "/abc" + (" " + unit if unit else ""))
            if st.text_tag is not None and st.text_tag is not t:
                both("non-numeric-value", st.text_tag.name + "/#, " + t.name + "/abc" + (" " + unit if unit else ""), (True,))
        if vcs == ["numericClass"]:
            # conforming numbers in scientific notation, exponent letter in either case
            unit = v.a_unit(t) if ucs else None
            for lit in ("1E3", "2.5E-2", "1e3"):
                out.append(("valid:value:exponent", t.name + "/" + lit + (" " + unit if unit else ""), None, (False, True)))
        if not vcs and not ucs:
            # a value-taking tag whose placeholder declares no class at all still has the tag character rules
            both("forbidden-char-in-value", t.name + "/a$b")
            both("forbidden-char-in-value", t.long + "/Ab$c")
        if vcs and set(vcs) <= {"nameClass", "numericClass"} and not ucs:
            # a value that no declared class accepts (not a number, and '$' is not a name character)
            both("forbidden-char-in-value", t.name + "/a$b")
            both("forbidden-char-in-value", t.long + "/5$")
    if is_plain and (val is not None or t.value_child is None):
        u = Leaf(t, val or "").text("short")
        ul = Leaf(t, val or "").text("long")
        out.append(("duplicate-tag", f"{u}, {u}", EXPECTED["duplicate-tag"], (False, True)))
        out.append(("duplicate-tag", f"({s}, {u}, {ul})", EXPECTED["duplicate-tag"], (False, True)))
        out.append(("duplicate-group", f"({s}, {u}), ({ul}, {s})", EXPECTED["duplicate-group"], (False, True)))
    return out


def delimiter_mutations(text):
    """Every single-delimiter mutation of a valid rendered text, at every applicable position."""
    out = []
    n = len(text)
    for i, ch in enumerate(text):
        if ch == "(":
            out.append(("extra-open-paren", text[:i] + "(" + text[i:]))
            out.append(("extra-close-paren", text[:i] + text[i + 1:]))      # one '(' removed -> one ')' too many
            if i > 0 and text[:i].rstrip().endswith(","):
                j = len(text[:i].rstrip()) - 1
                out.append(("comma-missing-before-open", text[:j] + " " + text[j + 1:]))
            out.append(("empty-group", text[:i] + "(), " + text[i:]))
        elif ch == ")":
            out.append(("extra-close-paren", text[:i] + ")" + text[i:]))
            out.append(("extra-open-paren", text[:i] + text[i + 1:]))       # one ')' removed
            rest = text[i + 1:]
            if rest.lstrip().startswith(","):
                k = i + 1 + (len(rest) - len(rest.lstrip()))
                if text[k + 1:].strip() and not text[k + 1:].lstrip().startswith(")"):
                    out.append(("comma-missing-after-close", text[:k] + " " + text[k + 1:]))
        elif ch == ",":
            out.append(("double-comma", text[:i] + ",," + text[i + 1:]))
            out.append(("double-comma", text[:i] + ", ," + text[i + 1:]))       # empty tag written with blanks
            out.append(("double-comma", text[:i] + " ,   , " + text[i + 1:]))
        if ch == "(":
            out.append(("leading-comma", text[:i + 1] + " , " + text[i + 1:]))    # '( , X': empty tag opens the group
            out.append(("leading-comma", text[:i + 1] + "," + text[i + 1:]))
        elif ch == ")":
            out.append(("trailing-comma", text[:i] + " , " + text[i:]))           # 'X , )': empty tag closes the group
            out.append(("trailing-comma", text[:i] + "," + text[i:]))
    out.append(("leading-comma", "," + text))
    out.append(("leading-comma", " , " + text))
    out.append(("leading-comma", " ," + text))
    out.append(("trailing-comma", text + ","))
    out.append(("trailing-comma", text + " , "))
    out.append(("trailing-comma", text + ", "))
    out.append(("empty-group", text + ", ()"))
    out.append(("empty-group", text + ", (), ()"))            # two empty groups are also a repeated group
    out.append(("empty-group", "(), (), " + text))
    out.append(("empty-group", "((), ()), " + text))
    out.append(("empty-group", "(" + text + ", ()), (" + text + ", ())"))
    # swapped parentheses with equal counts: turn the first "(...)" into ")...("
    a = text.find("(")
    if a != -1:
        depth, b = 0, -1
        for j in range(a, n):
            if text[j] == "(":
                depth += 1
            elif text[j] == ")":
                depth -= 1
                if depth == 0:
                    b = j
                    break
        if b != -1:
            out.append(("swapped-parens", text[:a] + ")" + text[a + 1:b] + "(" + text[b + 1:]))
    return out


def char_mutations(text):
    out = []
    # inside the first tag and inside the last tag (never next to a delimiter, which would be a different fault)
    last = max(i for i, ch in enumerate(text) if ch.isalnum())
    first = min(i for i, ch in enumerate(text) if ch.isalnum())
    pos = [first + 1, last]
    for p in pos:
        for ch in "[]":
            out.append(("bracket", text[:p] + ch + text[p:], (False, True)))
        for ch in "{}":
            out.append(("brace", text[:p] + ch + text[p:], (False,)))
        out.append(("tilde", text[:p] + "~" + text[p:], (False, True)))
        out.append(("illegal-char-in-tag", text[:p] + "$" + text[p:], (False, True)))
    return out


def structure_cases(st, n, g, d):
    out = []
    for shp in hedgen.shapes(n, g, d):
        for tree in hedgen.fill(shp, st.pool):
            text = render(tree)
            dup = hedgen.has_duplicate(tree)
            if dup:
                out.append(("duplicate-sibling", text, EXPECTED["duplicate-sibling"], (False, True), shp))
            else:
                out.append(("valid:tree", text, None, (False, True), shp))
    return out


def structure_mutation_cases(st, n, g, d):
    """Delimiter and character mutations of every valid tree over a 2-leaf pool (positions are what matters)."""
    out = []
    pool = st.pool[:2]
    for shp in hedgen.shapes(n, g, d):
        for tree in hedgen.fill(shp, pool):
            if hedgen.has_duplicate(tree):
                continue
            text = render(tree)
            for kind, mt in delimiter_mutations(text):
                out.append((kind, mt, EXPECTED[kind], (False, True), shp))
            for kind, mt, ph in char_mutations(text):
                out.append((kind, mt, EXPECTED[kind], ph, shp))
    return out


def template_cases(st):
    """Reserved-tag templates, only where the schema's XML declares the attributes that make them reserved."""
    v, m = st.vocab, st.model
    out = []
    if len(st.plain3) < 3:
        return out
    s1, s2, s3 = (t.name for t in st.plain3[:3])

    def add(kind, text, ph=(False, True)):
        out.append((kind, text, EXPECTED.get(kind), ph, None))

    def attr(name, a):
        t = m.by_short.get(name.casefold())
        return t is not None and (a in t.attrs)

    out.append(("unknown-tag", "Zzqunknown", EXPECTED["unknown-tag"], (False, True), None))
    out.append(("unknown-tag", f"({s1}, Zzqunknown)", EXPECTED["unknown-tag"], (False, True), None))
    if st.defs_ok:
        for ctxfmt in ("{}", "({}, " + s3 + ")", "(" + s3 + ", ({}))"):
            add("valid:def", ctxfmt.format("Def/Pl"))
            add("valid:def", ctxfmt.format("Def/Ne"))
            add("undeclared-def", ctxfmt.format("Def/Nope"))
            add("def-extra-value", ctxfmt.format("Def/Pl/3"))
            add("def-expand-extra-value", ctxfmt.format(f"(Def-expand/Pl/3, {st.def_content['Pl']})"))
            add("valid:def-expand", ctxfmt.format(f"(Def-expand/Pl, {st.def_content['Pl']})"))
            add("valid:def-expand", ctxfmt.format(f"(Def-expand/Ne, {st.def_content['Ne']})"))
            add("def-expand-altered", ctxfmt.format(f"(Def-expand/Pl, ({s1}, {s3}))"))
            add("def-expand-altered", ctxfmt.format(f"(Def-expand/Ne, ({s1}, ({s2})))"))
            add("def-expand-altered", ctxfmt.format(f"(Def-expand/Pl, ({s1}))"))
            if "Vt" in st.def_content:
                add("valid:def", ctxfmt.format("Def/Vt/Abc"))
                add("def-missing-value", ctxfmt.format("Def/Vt"))
                add("valid:def-expand", ctxfmt.format(f"(Def-expand/Vt/Abc, {st.def_content['Vt'].replace('@', 'Abc')})"))
                add("def-expand-altered", ctxfmt.format(f"(Def-expand/Vt/Abc, {st.def_content['Vt'].replace('@', 'Abd')})"))
                add("valid:def-placeholder", ctxfmt.format("Def/Vt/#"), (True,))
            if "Vu" in st.def_content:
                add("valid:def", ctxfmt.format("Def/Vu/3"))
                add("def-missing-value", ctxfmt.format("Def/Vu"))
                add("def-bad-value", ctxfmt.format("Def/Vu/abc"))
                add("valid:def-expand", ctxfmt.format(f"(Def-expand/Vu/3, {st.def_content['Vu'].replace('@', '3')})"))
                add("def-expand-altered", ctxfmt.format(f"(Def-expand/Vu/3, {st.def_content['Vu'].replace('@', '4')})"))
        if attr("Def-expand", "tagGroup"):
            add("def-expand-ungrouped", f"Def-expand/Pl, {st.def_content['Pl']}")
        if attr("Onset", "topLevelTagGroup"):
            marks = ["Onset", "Offset"] + (["Inset"] if v.has["Inset"] and attr("Inset", "topLevelTagGroup") else [])
            for mk in marks:
                add("valid:temporal", f"(Def/Pl, {mk})")
                add("valid:temporal", f"({mk}, Def/Ne), {s3}")
                add("valid:temporal", f"((Def-expand/Pl, {st.def_content['Pl']}), {mk})")
                add("toplevel-tag-ungrouped", f"Def/Pl, {mk}")
                add("toplevel-tag-nested", f"({s3}, (Def/Pl, {mk}))")
                add("temporal-without-def", f"({mk})")
                add("temporal-without-def", f"({mk}, {s3})")
            add("valid:temporal", f"(Def/Pl, Onset, ({s3}))")
            if attr("Delay", "topLevelTagGroup"):
                for mk in marks:                                  # a delayed marker: Delay is the only extra tag allowed
                    add("valid:temporal", f"(Delay/5 s, {mk}, Def/Pl)")
                    add("valid:temporal", f"({mk}, Def/Ne, Delay/2.5 ms), {s3}")
                    if mk != "Offset":
                        add("valid:temporal", f"(Delay/5 s, {mk}, Def/Pl, ({s3}))")
                        add("valid:temporal", f"(Def/Pl, ({s3}), {mk}, Delay/5 s)")
                    add("temporal-extra-tag", f"(Delay/5 s, {mk}, Def/Pl, {s2})")
                    add("temporal-extra-tag", f"({mk}, Def/Pl, {s2})")
            if "Inset" in marks:
                add("valid:temporal", f"(Def/Pl, Inset, ({s3}))")
            for mk in marks:
                add("toplevel-tag-nested", f"(Def/Pl, {mk}), ({s3}, (Def/Pl, {mk}))")
                add("toplevel-tag-nested", f"({s3}, (Def/Ne, {mk})), (Def/Ne, {mk})")
            add("offset-with-group", f"(Def/Pl, Offset, ({s3}))")
            add("two-toplevel-tags", "(Def/Pl, Onset, Offset)")
    if attr("Event-context", "topLevelTagGroup"):
        add("valid:event-context", f"(Event-context, ({s1}))")
        add("valid:event-context", f"(Event-context, {s1}), {s2}")
        add("toplevel-tag-ungrouped", f"Event-context, {s1}")
        add("toplevel-tag-nested", f"({s2}, (Event-context, ({s1})))")
        add("toplevel-tag-nested", f"(Event-context, ({s1})), ({s2}, (Event-context, ({s1})))")
        if attr("Event-context", "unique"):
            add("unique-twice", f"(Event-context, ({s1})), (Event-context, ({s2}))")
    if attr("Duration", "topLevelTagGroup") and attr("Delay", "topLevelTagGroup"):
        for mk in ("Duration", "Delay"):
            add("valid:duration", f"({mk}/3 s, ({s1}))")
            add("valid:duration", f"({mk}/3.5 ms, ({s1}, ({s2}))), {s3}")
            add("toplevel-tag-ungrouped", f"{mk}/3 s, ({s1})")
            add("toplevel-tag-nested", f"({s3}, ({mk}/3 s, ({s1})))")
            add("toplevel-tag-nested", f"({mk}/3 s, ({s1})), ({s3}, ({mk}/3 s, ({s1})))")
            add("toplevel-tag-nested", f"({s3}, ({mk}/3 s, ({s1}))), ({mk}/3 s, ({s1}))")
            add("duration-without-group", f"({mk}/3 s)")
            add("duration-extra-tag", f"({mk}/3 s, {s2}, ({s1}))")
            # more than the one inner group the tag takes
            add("duration-extra-tag", f"({mk}/3 s, ({s1}), ({s2}))")
            add("duration-extra-tag", f"(({s1}), {mk}/3 s, ({s2}), ({s3}))")
            add("unknown-unit", f"({mk}/3 zzq, ({s1}))")
        add("valid:duration", f"(Delay/3 s, Duration/2 s, ({s1}))")
        add("duration-extra-tag", f"(Delay/3 s, Duration/2 s, ({s1}), ({s2}))")
        if attr("Event-context", "topLevelTagGroup"):
            # Delay may share its group with a temporal tag only: any other top-level-group tag beside it, in either order
            add("two-toplevel-tags", f"(Delay/5 s, Event-context, ({s1}))")
            add("two-toplevel-tags", f"(Event-context, Delay/5 s, ({s1}))")
            add("two-toplevel-tags", f"(Event-context, ({s1}), Delay/5 s)")
            add("two-toplevel-tags", f"(Duration/5 s, Event-context, ({s1}))")
            add("two-toplevel-tags", f"(Event-context, Duration/5 s, ({s1}))")
        add("valid:duration", f"(Duration/2 s, Delay/3 s, ({s1}))")
        if attr("Onset", "topLevelTagGroup") and getattr(st, "def_strings", None):
            # a faulty duration group written after (and before) another top-level group that holds Delay or Duration: every
            # such group is judged, whatever stands before it
            for other in ("(Delay/1 s, Onset, Def/Pl)", "(Def/Pl, Delay/1 s, Offset)", f"(Duration/1 s, ({s3}))",
                          f"(Delay/1 s, ({s3}))"):
                for faulty in (f"(Duration/2 s, {s2}, ({s1}))", f"(Delay/2 s, ({s1}), ({s2}))", "(Duration/2 s)"):
                    kind = "duration-without-group" if faulty == "(Duration/2 s)" else "duration-extra-tag"
                    add(kind, f"{other}, {faulty}")
                    add(kind, f"{faulty}, {other}")
                add("valid:duration", f"{other}, (Duration/2 s, ({s1}))")
    return out


# ---------------------------------------------------------------------------------------------------

def judge(rec, st, kind, text, expected, ph, statekey, via_string=False):
    from hed.models.hed_string import HedString
    rec.n("evaluations")
    rec.n("transitions")
    if expected is not None or "(" in text:
        rec.n("distinct_nontrivial")
    try:
        hs = HedString(text, st.schema, st.def_dict)
        if via_string:
            issues = hs.validate(allow_placeholders=ph)
        else:
            issues = st.validator.validate(hs, allow_placeholders=ph)
        codes = [i["code"] for i in issues if i["severity"] == ERR]
    except Exception as e:
        rec.violation(f"C01:raises:{type(e).__name__}:{kind.split(':')[0]}", schema=st.label, kind=kind, text=text,
                      placeholders=ph, error=repr(e)[:300])
        rec.outcome("raises")
        return
    if expected is None:
        if codes:
            rec.violation(f"C01:valid-rejected:{kind}:{sorted(set(codes))[0]}", schema=st.label, kind=kind, text=text,
                          placeholders=ph, codes=codes)
            rec.outcome("valid-rejected")
        else:
            rec.outcome("valid-ok")
    else:
        if not (set(codes) & expected):
            rec.violation(f"C01:missed:{kind}:got={'+'.join(sorted(set(codes))) or 'nothing'}", schema=st.label,
                          kind=kind, text=text, placeholders=ph, expected=sorted(expected), codes=codes)
            rec.outcome("missed:" + kind)
        else:
            rec.outcome("caught:" + kind)


def sweep_verdicts():
    """Error codes of every reserved-tag template of 8.3.0 (both placeholder settings) - run once per hash seed."""
    from hed.models.hed_string import HedString
    st = Setup("HED8.3.0.xml")
    out = {}
    for kind, text, expected, phs, _ in template_cases(st):
        for ph in phs:
            try:
                issues = st.validator.validate(HedString(text, st.schema, st.def_dict), allow_placeholders=ph)
                out[f"{text} | placeholders={ph}"] = sorted(i["code"] for i in issues if i["severity"] == ERR)
            except Exception as e:
                out[f"{text} | placeholders={ph}"] = ["RAISES:" + type(e).__name__]
    return out


def prefix_history_check(ctx):
    """One schema object is used, then given a namespace prefix, then used again: the rules that go by tag name (unique,
    required, reserved tags) follow the prefix."""
    from hed.schema import load_schema
    from hed.models.hed_string import HedString
    from hed.validator import HedValidator
    rec = ctx.rec
    path = os.path.join(core.SCHEMA_DATA, "HED8.3.0.xml")
    cases = [("({0}Event-context, ({0}Red)), ({0}Event-context, ({0}Blue))", "TAG_NOT_UNIQUE"),
             ("{0}Red, ({0}Event-context, ({0}Blue))", None),
             ("({0}Blue, ({0}Event-context, ({0}Red)))", "TAG_GROUP_ERROR"),
             ("({0}Duration/3 s, ({0}Red)), {0}Blue", None)]
    for hist in itertools.product(("use", "prefix:sc", "prefix:tl", "prefix:"), repeat=3):
        rec.n("evaluations")
        rec.n("transitions", 3)
        rec.n("distinct_nontrivial")
        try:
            S = load_schema(path)
            ns = ""
            for op in hist + ("use",):
                if op == "use":
                    v = HedValidator(S)
                    for tmpl, want in cases:
                        text = tmpl.format(ns)
                        codes = {i["code"] for i in v.validate(HedString(text, S), allow_placeholders=False)
                                 if i["severity"] == ERR}
                        if (want is None and codes) or (want is not None and want not in codes):
                            rec.violation("C01:prefix-history:verdict-differs-after-prefix-change:" + (want or "valid"),
                                          history=list(hist), text=text, codes=sorted(codes), expected=want)
                            raise StopIteration
                    # under a prefix a tag written without it belongs to no loaded schema
                    for text in ((f"Red", f"{ns}Blue, Red", f"(Label/abc, {ns}Green)", "Item/Object/Zzq") if ns else ()):
                        codes = {i["code"] for i in v.validate(HedString(text, S), allow_placeholders=False)
                                 if i["severity"] == ERR}
                        if "TAG_NAMESPACE_PREFIX_INVALID" not in codes:
                            rec.violation("C01:prefix-history:unprefixed-tag-accepted-under-a-prefix", history=list(hist),
                                          text=text, prefix=ns, codes=sorted(codes))
                            raise StopIteration
                else:
                    S.set_schema_prefix(op[7:])
                    ns = op[7:] + ":" if op[7:] else ""
        except StopIteration:
            pass
        except Exception as e:
            rec.violation("C01:prefix-history:raises:" + type(e).__name__, history=list(hist), error=repr(e)[:200])
        rec.state(("prefix-history", hist))
    rec.outcome("prefix-history")


VALUE_TEXTS = ["two words", "a.b;c", "abc", "x!", "12", "a_b-c", "caf\u00e9", "3 s"]
VALUE_TAGS = ["Description/{}", "Label/{}", "ID/{}", "Item-count/{}", "Duration/{}"]


def validator_history_check(ctx):
    """One HedValidator object judges a sequence of annotations: each verdict equals a fresh validator's (the same value text
    under tags of different value classes, in both orders and within one annotation)."""
    from hed.models.hed_string import HedString
    from hed.validator import HedValidator
    rec = ctx.rec
    st = Setup("HED8.3.0.xml")
    texts = [t.format(v) for v in VALUE_TEXTS for t in VALUE_TAGS]
    texts += [f"{a.format(v)}, {b.format(v)}" for v in VALUE_TEXTS[:4] for a in VALUE_TAGS[:3] for b in VALUE_TAGS[:3] if a != b]

    def verdict(validator, text):
        return sorted((i["code"], i["severity"]) for i in validator.validate(HedString(text, st.schema), allow_placeholders=False))
    fresh = {}
    for t in texts:
        try:
            fresh[t] = verdict(HedValidator(st.schema), t)
        except Exception as e:
            rec.violation("C01:validator-history:raises:" + type(e).__name__, text=t, error=repr(e)[:200])
            return
    singles = [t for t in texts if ", " not in t]
    for v in VALUE_TEXTS:
        group = [t for t in singles if t.endswith("/" + v)]
        for a, b in itertools.permutations(group, 2):
            rec.n("evaluations")
            rec.n("transitions", 2)
            rec.n("distinct_nontrivial")
            rec.state(("validator-history", a.split("/")[0], b.split("/")[0]))
            val = HedValidator(st.schema)
            for step, t in enumerate((a, b, a)):
                got = verdict(val, t)
                if got != fresh[t]:
                    rec.violation("C01:validator-history:verdict-depends-on-earlier-annotations", history=[a, b, a][:step + 1],
                                  text=t, fresh=fresh[t], got=got)
                    break
    rec.outcome("validator-history")
    # both tags in one annotation: the issues are those of the two tags on their own
    for t in texts:
        if ", " not in t:
            continue
        a, b = t.split(", ")
        rec.n("evaluations")
        want = sorted(c for c, sev in fresh[a] + fresh[b] if sev == ERR)
        got = sorted(c for c, sev in fresh[t] if sev == ERR)
        if got != want:
            rec.violation("C01:validator-history:two-tags-judged-differently-together", text=t, alone=want, together=got)


def hash_seed_check(ctx):
    """The verdict on an annotation must not depend on the interpreter's string-hash seed (set iteration order)."""
    seeds = list(range(1, ctx.pick(9, 25)))
    res = core.hash_sweep("props.c01", "sweep_verdicts", seeds)
    base = sweep_verdicts()
    rec = ctx.rec
    for seed, got in sorted(res.items()):
        rec.n("evaluations", len(got))
        rec.n("transitions", len(got))
        rec.n("distinct_nontrivial", len(got))
        for text, codes in got.items():
            if codes != base.get(text):
                rec.violation("C01:verdict-depends-on-hash-seed", text=text, seed=seed, codes=codes, codes_seed0=base.get(text))
                break
    rec.outcome("hash-seeds-agree")
    rec.notes["hash_seeds"] = [0] + seeds


def worker(rec, shard, nshards, setups, bounds, seed):
    n, g, d, mn, mg, md = bounds
    for st in setups:
        # vocabulary axis: shard over tags
        tags = [t for t in st.model.tags if not st.vocab.is_reserved(t)
                and t.name.casefold() not in st.model.dup_short]
        for ti in core.shard_order(len(tags), shard, nshards, seed):
            t = tags[ti]
            for ci, (kind, text, expected, phs) in enumerate(vocab_cases(st, t)):
                for ph in phs:
                    judge(rec, st, kind, text, expected, ph, None, via_string=(ci % 16 == 5))
                rec.state((st.label, kind.split(":ctx")[0], t.long))
            if ti % 397 == 3:
                rec.sample({"schema": st.label, "tag": t.long, "cases": [c[:2] for c in vocab_cases(st, t)[:4]]})
        # structure axis: shard over cases
        cases = structure_cases(st, n, g, d) + structure_mutation_cases(st, mn, mg, md) + template_cases(st)
        for ci in core.shard_order(len(cases), shard, nshards, seed):
            kind, text, expected, phs, shp = cases[ci]
            for ph in phs:
                judge(rec, st, kind, text, expected, ph, None, via_string=(ci % 16 == 5))
            rec.state((st.label, kind, repr(shp)))
            if ci % 5003 == 11:
                rec.sample({"schema": st.label, "kind": kind, "text": text, "expected": sorted(expected or [])})


def pick_files(ctx):
    files = core.bundled_files()
    if not ctx.thorough:
        files = ["HED8.3.0.xml", "HED_testlib_2.0.0.xml", "HED_score_1.0.0.xml", "HED_testlib_1.0.2.xml"]
    return files


def run(ctx):
    setups = [Setup(f) for f in pick_files(ctx)]
    bounds = ctx.pick((3, 2, 2, 3, 2, 2), (4, 3, 3, 4, 2, 2))
    ctx.rec.notes["bounds"] = {"schemas": [s.label for s in setups], "structure(n,g,d)": bounds[:3],
                               "mutation-trees(n,g,d)": bounds[3:], "pool": {s.label: [repr(x) for x in s.pool]
                                                                              for s in setups},
                               "definitions": {s.label: s.def_strings for s in setups},
                               "excluded_reserved": list(hedgen.RESERVED)}
    ctx.rec.notes["defs_available"] = {s.label: s.defs_ok for s in setups}
    ctx.parallel(worker, setups, bounds, ctx.seed)
    hash_seed_check(ctx)
    prefix_history_check(ctx)
    validator_history_check(ctx)
    ctx.rec.counts["states"] = len(ctx.rec.states)


def replay(ctx, case):
    fname = case["schema"].split("@")[0]
    st = Setup(fname)
    rec = core.Rec()
    expected = set(case["expected"]) if case.get("expected") else None
    judge(rec, st, case["kind"], case["text"], expected, case["placeholders"], None)
    judge(rec, st, case["kind"], case["text"], expected, case["placeholders"], None, via_string=True)
    return [(fp, d) for fp, lst in rec.viol.items() for d in lst[:1]]
