"""C04 - validation outcome does not depend on how an annotation is written.

Engine E1, relational: every generated tree (valid and invalid) is validated, then every spelling / spacing /
sibling-order rewrite of it is validated and the multisets of error codes are compared (pure differential).
Plus the explicit duplicate family (DESIGN 4/C04).
"""
import itertools

from mc import core, hedgen
from mc.hedgen import Leaf, render
from props import c01

ID = "C04"
LEVEL = "model_checking"
RULE = ("every forest with <= n leaves, <= g groups, depth <= d over a 9-leaf pool (valid and invalid leaves) x every "
        "single-leaf respelling (long, partial paths, lower/UPPER case), every spacing style and single-position blank "
        "insertion, every permutation of each group's members (one group at a time) and the all-groups reversal; "
        "duplicate family: every subtree G (<= 3 leaves, depth <= 2) x every recursive reordering G' x 0-2 extra siblings "
        "x every arrangement, at top level and nested; reserved family: ordered pairs (thorough: triples) of 27 entries "
        "around the reserved tags x the same order / spelling rewrites.  distinct case = (tree, rewrite); non-trivial = rewrite text "
        "differs from the original text; state = canonical tree; transition = one validation of the implementation")
ASSUMPTIONS = [
    "only error-severity codes are compared (style warnings legitimately depend on letter case)",
    "respelling applies to the schema-path part of a tag; values / extensions are kept verbatim",
]

ERR = 1


def codes_of(st, text, ph=False):
    from hed.models.hed_string import HedString
    hs = HedString(text, st.schema, st.def_dict)
    validator = st.validator
    if "Left side" in text:
        # the entries with one value text under two value classes are judged by a validator of their own, so that nothing
        # an earlier annotation left in the shared validator can make the two orders agree
        from hed.validator import HedValidator
        validator = HedValidator(st.schema, def_dicts=st.def_dict)
    issues = validator.validate(hs, allow_placeholders=ph)
    return tuple(sorted(i["code"] for i in issues if i["severity"] == ERR))


def make_pool(st):
    v = st.vocab
    deep = [t for t in v.plain if len(t.terms()) >= 3 and not t.children and t.value_child is None
            and "deprecatedFrom" not in t.attrs and not any("deprecatedFrom" in p.attrs for p in t.ancestors())]
    pool = [Leaf(deep[0]), Leaf(deep[len(deep) // 2])]
    if st.ext_tag is not None:
        pool.append(Leaf(st.ext_tag, "/Zzqext-1"))
    if st.unit_tag is not None:
        pool.append(Leaf(st.unit_tag, v.good_value(st.unit_tag)))
    if st.text_tag is not None:
        pool.append(Leaf(st.text_tag, "/Abc"))
    pool.append(Leaf(raw="Zzqunknown"))
    if v.ext_forbidden:
        t = next((x for x in v.ext_forbidden if len(x.terms()) >= 2), v.ext_forbidden[0])
        pool.append(Leaf(t, "/Zzqext-2"))
    if v.require_child:
        t = next((x for x in v.require_child if x.value_child is None), None)
        if t is not None:
            pool.append(Leaf(t))
    if st.defs_ok:
        pool.append(Leaf(raw="Def/Pl"))
    return pool


# ---- rewrites -----------------------------------------------------------------------------------

def leaf_paths(tree, prefix=()):
    for i, it in enumerate(tree):
        if isinstance(it, Leaf):
            yield prefix + (i,)
        else:
            yield from leaf_paths(it, prefix + (i,))


def group_paths(tree, prefix=()):
    yield prefix
    for i, it in enumerate(tree):
        if not isinstance(it, Leaf):
            yield from group_paths(it, prefix + (i,))


def get_at(tree, path):
    node = tree
    for i in path:
        node = node[i]
    return node


def render_with(tree, override, style=(", ", "(", ")")):
    """Render with per-leaf spelling override {path: text}."""
    sep, lp, rp = style

    def rec(items, prefix):
        parts = []
        for i, it in enumerate(items):
            p = prefix + (i,)
            if isinstance(it, Leaf):
                parts.append(override.get(p, it.text()))
            else:
                parts.append(lp + rec(it, p) + rp)
        return sep.join(parts)
    return rec(tree, ())


def spelling_rewrites(tree):
    for p in leaf_paths(tree):
        leaf = get_at(tree, p)
        if leaf.node is None:
            if leaf.raw and leaf.raw.startswith("Def/"):
                for alt in ("def/" + leaf.raw[4:], "DEF/" + leaf.raw[4:], "Def/" + leaf.raw[4:].upper()):
                    yield ("spelling:def-case", render_with(tree, {p: alt}))
            continue
        nterms = len(leaf.node.terms())
        forms = ["short", "long"] + list(range(1, nterms - 1))
        seen = {leaf.text()}
        for f in forms:
            for case in (None, "lower", "upper", "swap"):
                alt = leaf.text(f, case)
                if alt in seen:
                    continue
                seen.add(alt)
                yield (f"spelling:{f if isinstance(f, str) else 'partial'}:{case or 'asis'}", render_with(tree, {p: alt}))


STYLES = [(",", "(", ")"), (", ", "(", ")"), (" , ", "(", ")"), (",  ", "( ", " )"), (" ,", " (", ") "), (", ", "(  ", "  )")]


def spacing_rewrites(tree):
    base = render(tree)
    for st in STYLES:
        t = render_with(tree, {}, st)
        if t != base:
            yield ("spacing:style", t)
    yield ("spacing:outer", "  " + base + " ")
    # one blank before / after each single delimiter
    for i, ch in enumerate(base):
        if ch in ",()":
            yield ("spacing:before@", base[:i] + " " + base[i:])
            yield ("spacing:after@", base[:i + 1] + " " + base[i + 1:])
            if ch == "," and base[i + 1:i + 2] == " ":
                yield ("spacing:removed@", base[:i + 1] + base[i + 2:])


def text_spacing_rewrites(text):
    """Spacing rewrites of an arbitrary (possibly malformed) text: blanks only ever next to delimiters."""
    seen = {text}
    for i, ch in enumerate(text):
        if ch in ",()":
            for cand in (text[:i] + " " + text[i:], text[:i + 1] + " " + text[i + 1:],
                         text[:i] + "  " + text[i:], text[:i + 1] + "  " + text[i + 1:]):
                if cand not in seen:
                    seen.add(cand)
                    yield ("spacing:malformed:insert@", cand)
        if ch == " " and ((i > 0 and text[i - 1] in ",() ") or (i + 1 < len(text) and text[i + 1] in ",() ")):
            cand = text[:i] + text[i + 1:]
            if cand not in seen:
                seen.add(cand)
                yield ("spacing:malformed:remove@", cand)
    for cand in (text.replace(", ", ","), text.replace(",", " , "), text.replace("(", "( ").replace(")", " )"),
                 " " + text + "  "):
        if cand not in seen:
            seen.add(cand)
            yield ("spacing:malformed:style", cand)


def worker_malformed(rec, shard, nshards, setups, bounds, seed):
    """Delimiter-faulted texts (the C01 delimiter mutations of every small valid tree) under every spacing rewrite."""
    n, g, d = bounds
    for st in setups:
        pool = [Leaf(t) for t in st.plain3[:2]]
        bases = []
        seen = set()
        for shp in hedgen.shapes(n, g, d):
            for tree in hedgen.fill(shp, pool):
                if hedgen.has_duplicate(tree):
                    continue
                for kind, mt in c01.delimiter_mutations(render(tree)):
                    if mt not in seen:
                        seen.add(mt)
                        bases.append((kind, mt))
        for bi in core.shard_order(len(bases), shard, nshards, seed):
            kind, text = bases[bi]
            try:
                base = codes_of(st, text)
            except Exception as e:
                rec.violation("C04:raises:" + type(e).__name__, schema=st.label, text=text, error=repr(e)[:200])
                continue
            rec.n("evaluations")
            rec.state((st.label, "malformed", text))
            rec.outcome("base:" + "+".join(sorted(set(base))))
            for rk, rtext in text_spacing_rewrites(text):
                rec.n("evaluations")
                rec.n("transitions")
                rec.n("distinct_nontrivial")
                try:
                    got = codes_of(st, rtext)
                except Exception as e:
                    rec.violation("C04:raises:" + type(e).__name__, schema=st.label, text=rtext, error=repr(e)[:200])
                    continue
                if got != base:
                    rec.violation(fingerprint(rk + ":" + kind, base, got), schema=st.label, kind=rk, fault=kind,
                                  original=text, rewrite=rtext, codes_original=base, codes_rewrite=got)
            if bi % 997 == 1:
                rec.sample({"schema": st.label, "malformed": text, "fault": kind, "codes": base})


def permuted(tree, path, perm):
    def rec(items, prefix):
        out = [it if isinstance(it, Leaf) else rec(it, prefix + (i,)) for i, it in enumerate(items)]
        if prefix == path:
            out = [out[j] for j in perm]
        return out
    return rec(tree, ())


def reversed_all(tree):
    return [it if isinstance(it, Leaf) else reversed_all(it) for it in reversed(tree)]


def order_rewrites(tree):
    for gp in group_paths(tree):
        members = get_at(tree, gp) if gp else tree
        k = len(members)
        if k < 2:
            continue
        for perm in itertools.permutations(range(k)):
            if perm == tuple(range(k)):
                continue
            yield ("order:group-permutation", render(permuted(tree, gp, perm)))
    yield ("order:reverse-all", render(reversed_all(tree)))


def all_reorderings(tree):
    """Every tree obtained by permuting the members of every group recursively (incl. identity)."""
    variants_per_item = []
    for it in tree:
        if isinstance(it, Leaf):
            variants_per_item.append([it])
        else:
            variants_per_item.append(list(all_reorderings(it)))
    for combo in itertools.product(*variants_per_item):
        for perm in itertools.permutations(combo):
            yield list(perm)


# ---- workers ------------------------------------------------------------------------------------

def worker_trees(rec, shard, nshards, setups, bounds, seed):
    n, g, d = bounds
    for st in setups:
        pool = make_pool(st)
        shapes = list(hedgen.shapes(n, g, d))
        cases = []
        for shp in shapes:
            for tree in hedgen.fill(shp, pool):
                cases.append(tree)
        for ci in core.shard_order(len(cases), shard, nshards, seed):
            tree = cases[ci]
            text = render(tree)
            try:
                base = codes_of(st, text)
            except Exception as e:
                rec.violation("C04:raises:" + type(e).__name__, schema=st.label, text=text, error=repr(e)[:200])
                continue
            rec.n("evaluations")
            rec.n("transitions")
            rec.state((st.label, hedgen.canon(tree)))
            rec.outcome("base:" + ("valid" if not base else "+".join(sorted(set(base)))))
            for gen in (spelling_rewrites, spacing_rewrites, order_rewrites):
                for kind, rtext in gen(tree):
                    rec.n("evaluations")
                    rec.n("transitions")
                    if rtext != text:
                        rec.n("distinct_nontrivial")
                    try:
                        got = codes_of(st, rtext)
                    except Exception as e:
                        rec.violation("C04:raises:" + type(e).__name__, schema=st.label, text=rtext, error=repr(e)[:200])
                        continue
                    if got != base:
                        rec.violation(fingerprint(kind, base, got), schema=st.label, kind=kind, original=text,
                                      rewrite=rtext, codes_original=base, codes_rewrite=got)
            if ci % 2503 == 5:
                rec.sample({"schema": st.label, "tree": text, "codes": base,
                            "rewrites": [r for _, r in itertools.islice(order_rewrites(tree), 2)] +
                                        [r for _, r in itertools.islice(spelling_rewrites(tree), 2)]})


def reserved_items(st):
    """Top-level entries built around the reserved tags (as schema leaves, so every respelling applies)."""
    m = st.model
    if len(st.plain3) < 3 or not st.defs_ok:
        return []
    R, B, G = (Leaf(t) for t in st.plain3[:3])

    def tag(name, suffix=""):
        t = m.by_short.get(name.casefold())
        return None if t is None else Leaf(t, suffix)
    DUR, DLY, ON, OFF, IN, EC = (tag("Duration", "/3 s"), tag("Delay", "/1 s"), tag("Onset"), tag("Offset"), tag("Inset"),
                                 tag("Event-context"))
    DEF = Leaf(raw="Def/Pl")
    items = [R]
    cand = [[DUR, [R]], [B, [DUR, [R]]], [DLY, ON, DEF], [DLY, ON], [DUR, R, [B]], [DUR], [ON, DEF, [G]], [OFF, DEF],
            [EC, [R]], [DLY, [B]], [DUR, DLY, [R]], [IN, DEF], [G, [ON, DEF]], [DLY, OFF, DEF], [B, [EC, [R]]],
            [DLY, EC, [R]], [DUR, EC, [R]], [OFF, DEF, [G]], [ON, DEF, [G], [R]]]
    # expanded definitions (right and wrong content; their members get reordered by the rewrites) and wrong Def tags
    P1, P2 = Leaf(st.plain3[0]), Leaf(st.plain3[1])       # the content of definition Pl (c01.Setup)
    DEFX = Leaf(raw="Def-expand/Pl")
    cand += [[DEFX, [P1, P2]], [ON, [DEFX, [P1, P2]], [G]], [DEFX, [G]], [B, [DEFX, [P1, P2]]], Leaf(raw="Def/Nope"),
             [Leaf(raw="Def/Nope"), B], Leaf(raw="Def/Pl/3")]

    # one value text under tags of different value classes (legal for the text class, not for the name class)
    if m.by_short.get("description") is not None and m.by_short.get("label") is not None:
        cand += [Leaf(raw="Description/Left side"), Leaf(raw="Label/Left side"), [Leaf(raw="Label/Left side"), B]]
    # several misplaced reserved tags in one nested group (their order inside the group is free)
    cand += [[R, [ON, EC]], [R, [DUR, EC, OFF]], [ON, EC], [B, [IN, EC, DLY]]]

    def complete(x):
        return all(complete(y) if isinstance(y, list) else y is not None for y in x)
    return items + [c for c in cand if isinstance(c, Leaf) or complete(c)]


def worker_reserved(rec, shard, nshards, setups, triples, seed):
    for st in setups:
        items = reserved_items(st)
        bases = [list(c) for c in itertools.product(items, repeat=2)]
        if triples:
            bases += [list(c) for c in itertools.product(items, repeat=3)]
        for bi in core.shard_order(len(bases), shard, nshards, seed):
            tree = bases[bi]
            text = render(tree)
            try:
                base = codes_of(st, text)
            except Exception as e:
                rec.violation("C04:raises:" + type(e).__name__, schema=st.label, text=text, error=repr(e)[:200])
                continue
            rec.n("evaluations")
            rec.n("transitions")
            rec.state((st.label, "reserved", hedgen.canon(tree)))
            rec.outcome("reserved-base:" + ("valid" if not base else "+".join(sorted(set(base)))))
            for gen in (order_rewrites, spelling_rewrites):
                for kind, rtext in gen(tree):
                    rec.n("evaluations")
                    rec.n("transitions")
                    if rtext != text:
                        rec.n("distinct_nontrivial")
                    try:
                        got = codes_of(st, rtext)
                    except Exception as e:
                        rec.violation("C04:raises:" + type(e).__name__, schema=st.label, text=rtext, error=repr(e)[:200])
                        continue
                    if got != base:
                        rec.violation(fingerprint("reserved:" + kind, base, got), schema=st.label, kind=kind, original=text,
                                      rewrite=rtext, codes_original=base, codes_rewrite=got)
            if bi % 499 == 3:
                rec.sample({"schema": st.label, "reserved": text, "codes": base})


def fingerprint(kind, base, got):
    k = kind.split("@")[0]
    diff = sorted((set(base) ^ set(got))) or ["count-only"]
    return f"C04:{k}:differs-in:{'+'.join(diff)}"


def dup_family_cases(st, thorough):
    pool3 = [Leaf(t) for t in st.plain3[:3]]
    if st.text_tag is not None:
        pool3.append(Leaf(st.text_tag, "/Abc"))
    subtrees = []
    for shp in hedgen.shapes(3, 2, 2):
        # G is a single item: a leaf or one group
        if len(shp) != 1:
            continue
        for tree in hedgen.fill(shp, pool3[:3] if shp != ("L",) else pool3):
            if hedgen.has_duplicate(tree):
                continue
            subtrees.append(tree[0])
    sib_menu = [Leaf(st.plain3[0]), Leaf(st.plain3[1]), [Leaf(st.plain3[1])], [Leaf(st.plain3[2])],
                [Leaf(st.plain3[0]), Leaf(st.plain3[2])], [[Leaf(st.plain3[1])]]]
    if st.text_tag is not None:
        sib_menu += [Leaf(st.text_tag, "/Abd"), Leaf(st.text_tag, "/Xyz")]
    out = []
    for G in subtrees:
        variants = [G] if isinstance(G, Leaf) else [v for v in all_reorderings(G)]
        if isinstance(G, Leaf) and G.node is not None:
            # the same tag under another spelling of its *name* (values stay verbatim)
            variants = [G, Leaf(raw=G.text("long")), Leaf(raw=G.text("short", "upper")), Leaf(raw=G.text("long", "lower"))]
        for nsib in ((0, 1, 2) if thorough else (0, 1)):
            for sibs in itertools.combinations(range(len(sib_menu)), nsib):
                out.append((G, variants, [sib_menu[i] for i in sibs]))
    return out


def worker_dups(rec, shard, nshards, setups, thorough, seed):
    for st in setups:
        cases = dup_family_cases(st, thorough)
        for ci in core.shard_order(len(cases), shard, nshards, seed):
            G, variants, sibs = cases[ci]
            base_items = [G, G] + sibs
            # "double": the copies sit in a group that is the only member of another group (redundant parentheses)
            for nested in (False, True, "double"):
                def wrap(items):
                    if nested == "double":
                        return [[items]]
                    return [Leaf(st.plain3[3]), items] if nested else items
                base_text = render(wrap(base_items))
                try:
                    base = codes_of(st, base_text)
                except Exception as e:
                    rec.violation("C04:raises:" + type(e).__name__, schema=st.label, text=base_text, error=repr(e)[:200])
                    continue
                rec.n("evaluations")
                rec.state((st.label, "dup", hedgen.canon(wrap(base_items))))
                if "TAG_EXPRESSION_REPEATED" not in base:
                    rec.violation("C04:dup-family:identical-copies-not-reported", schema=st.label, text=base_text,
                                  codes=base)
                seen = {base_text}
                for Gp in variants:
                    items = [G, Gp] + sibs
                    for perm in itertools.permutations(items):
                        text = render(wrap(list(perm)))
                        if text in seen:
                            continue
                        seen.add(text)
                        rec.n("evaluations")
                        rec.n("transitions")
                        rec.n("distinct_nontrivial")
                        try:
                            got = codes_of(st, text)
                        except Exception as e:
                            rec.violation("C04:raises:" + type(e).__name__, schema=st.label, text=text,
                                          error=repr(e)[:200])
                            continue
                        rec.outcome("dup:" + "+".join(sorted(set(got))))
                        if got != base:
                            rec.violation(dup_fingerprint(G, base, got), schema=st.label, original=base_text,
                                          rewrite=text, codes_original=base, codes_rewrite=got)
            if ci % 499 == 1:
                rec.sample({"schema": st.label, "G": repr(G), "siblings": repr(sibs)})


def worker_value_twins(rec, shard, nshards, setups, seed):
    """Two copies of a value / extension tag whose *values* differ in letter case only, plus 0-1 other tags: whether that
    counts as a repetition is not asked - only that the answer is the same for every spelling of the two *names* and every
    order of the members (pure differential)."""
    for st in setups:
        subjects = []
        if st.text_tag is not None:
            subjects.append((st.text_tag, "/Abc", "/abc"))
            subjects.append((st.text_tag, "/Abc", "/ABC"))
        if st.ext_tag is not None:
            subjects.append((st.ext_tag, "/Zzqext", "/zzqEXT"))
        between = [None]
        if st.text_tag is not None:
            between.append(Leaf(st.text_tag, "/B"))       # sorts between 'Abc' and 'abc' when case matters
        if st.ext_tag is not None:
            between.append(Leaf(st.ext_tag, "/a"))
        between.append(Leaf(st.plain3[0]))
        # the cases of one subject stay in one shard: the count of reported repetitions without a third member is the
        # reference for the same pair with an unrelated third member (an unrelated sibling neither adds nor hides one)
        cases = [(t, a, b, o) for (t, a, b) in subjects for o in between]
        alone = {}
        for ci in [i for i in range(len(cases)) if (i // len(between)) % nshards == shard]:
            t, va, vb, other = cases[ci]
            forms = ["short", "long"] + list(range(1, len(t.terms()) - 1))
            spell = []
            for f in forms:
                for case in (None, "lower", "upper"):
                    sp = Leaf(t).text(f, case)
                    if sp not in spell:
                        spell.append(sp)
            for nested in (False, True, "each-in-own-group"):
                base_codes = None
                base_text = None
                for sa in spell:
                    for sb in spell:
                        items = [sa + va, sb + vb] + ([other.text()] if other is not None else [])
                        if nested == "each-in-own-group":
                            items = [f"({x}, {st.plain3[1].name})" for x in items]
                        for perm in itertools.permutations(items):
                            text = ", ".join(perm)
                            if nested is True:
                                text = f"{st.plain3[3].name}, ({text})"
                            rec.n("evaluations")
                            rec.n("transitions")
                            rec.n("distinct_nontrivial")
                            try:
                                got = codes_of(st, text)
                            except Exception as e:
                                rec.violation("C04:raises:" + type(e).__name__, schema=st.label, text=text, error=repr(e)[:200])
                                continue
                            if base_codes is None:
                                base_codes, base_text = got, text
                                rec.state((st.label, "value-twin", t.name, va, vb, other is not None, nested))
                                rep = got.count("TAG_EXPRESSION_REPEATED")
                                if other is None:
                                    alone[(t.name, va, vb, nested)] = (rep, text)
                                elif (t.name, va, vb, nested) in alone and alone[(t.name, va, vb, nested)][0] != rep:
                                    rec.violation("C04:value-twin:unrelated-sibling-changes-repetition-report", schema=st.label,
                                                  without=alone[(t.name, va, vb, nested)][1], with_sibling=text,
                                                  repeated_without=alone[(t.name, va, vb, nested)][0], repeated_with=rep)
                            elif got != base_codes:
                                rec.violation(fingerprint("value-twin:" + ("order" if sorted(perm) == sorted(base_text.replace("(", "").replace(")", "").split(", ")[-len(perm):]) else "spelling"),
                                                          base_codes, got), schema=st.label, original=base_text, rewrite=text,
                                              codes_original=base_codes, codes_rewrite=got)
                rec.outcome("value-twin:" + ("+".join(sorted(set(base_codes))) if base_codes else "clean"))


def definition_twins(ctx, setups):
    """With definitions allowed in the string: a group outside a definition that looks like a group inside it is judged the
    same however its members are ordered or spelled (placeholders are not allowed outside definitions)."""
    from hed.validator import HedValidator
    from hed.models.hed_string import HedString
    rec = ctx.rec
    for st in setups:
        if st.text_tag is None:
            continue
        v = HedValidator(st.schema, definitions_allowed=True)
        T, P = st.text_tag, st.plain3[0]
        inner_variants = []
        for tsp in (T.name, T.long, T.name.lower()):
            for psp in (P.name, P.long):
                inner_variants += [f"({tsp}/#, {psp})", f"({psp}, {tsp}/#)"]
        for deftext in (f"(Definition/Zq/#, ({T.name}/#, {P.name}))", f"(Definition/Zq/#, ({st.plain3[1].name}, ({T.name}/#, {P.name})))"):
            base = None
            for inner in dict.fromkeys(inner_variants):
                for text in (f"{deftext}, {inner}", f"{inner}, {deftext}", f"{deftext}, ({st.plain3[2].name}, {inner})"):
                    rec.n("evaluations")
                    rec.n("transitions")
                    rec.n("distinct_nontrivial")
                    try:
                        issues = v.validate(HedString(text, st.schema), allow_placeholders=False)
                        codes = tuple(sorted(i["code"] for i in issues if i["severity"] == ERR))
                    except Exception as e:
                        rec.violation("C04:raises:" + type(e).__name__, schema=st.label, text=text, error=repr(e)[:200])
                        continue
                    key = text.count("(")        # compare like with like (same nesting shape)
                    if base is None:
                        base = {}
                    if key not in base:
                        base[key] = (codes, text)
                    elif codes != base[key][0]:
                        rec.violation(fingerprint("definition-twin", base[key][0], codes), schema=st.label,
                                      original=base[key][1], rewrite=text, codes_original=base[key][0], codes_rewrite=codes)
            rec.outcome("definition-twin")


def dup_fingerprint(G, base, got):
    kind = "tag" if isinstance(G, Leaf) else "group"
    if isinstance(G, Leaf) and G.suffix:
        kind = "value-tag"
    return f"C04:dup-family:{kind}:repeated-count {base.count('TAG_EXPRESSION_REPEATED')}->{got.count('TAG_EXPRESSION_REPEATED')}"


def run(ctx):
    files = ["HED8.3.0.xml"] if not ctx.thorough else ["HED8.3.0.xml", "HED8.0.0.xml", "HED_testlib_2.0.0.xml",
                                                       "HED_score_2.0.0.xml"]
    setups = [c01.Setup(f) for f in files]
    # thorough: the deep bound on the newest standard schema, the quick bound on the other three (4,3,4 on all four is
    # 2.6e8 validations: hours, not minutes)
    bounds = ctx.pick((3, 2, 3), (4, 2, 3))
    ctx.rec.notes["bounds"] = {"schemas": files, "trees(n,g,d)": {files[0]: bounds, "others": (3, 2, 3)},
                               "pool": {s.label: [repr(x) for x in make_pool(s)] for s in setups},
                               "dup_family": "G<=3 leaves depth<=2, 0-2 extra siblings, all arrangements, top+nested",
                               "reserved_family": "ordered pairs (thorough: + triples) of 27 entries built around Duration / "
                                                  "Delay / Onset / Offset / Inset / Event-context / Def; every one-group "
                                                  "permutation, the reversal and every single-leaf respelling"}
    ctx.parallel(worker_trees, setups[:1], bounds, ctx.seed)
    if setups[1:]:
        ctx.parallel(worker_trees, setups[1:], (3, 2, 3), ctx.seed)
    ctx.parallel(worker_dups, setups, ctx.thorough, ctx.seed)
    ctx.parallel(worker_reserved, setups, ctx.thorough, ctx.seed)
    ctx.parallel(worker_value_twins, setups, ctx.seed)
    definition_twins(ctx, setups)
    ctx.parallel(worker_malformed, setups, ctx.pick((2, 2, 2), (3, 2, 2)), ctx.seed)
    ctx.rec.counts["states"] = len(ctx.rec.states)


def replay(ctx, case):
    st = c01.Setup(case["schema"])
    a = codes_of(st, case["original"])
    b = codes_of(st, case["rewrite"])
    if a != b:
        return [("C04:replay-differs", {"original": case["original"], "rewrite": case["rewrite"],
                                        "codes_original": a, "codes_rewrite": b})]
    return []
