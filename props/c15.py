"""C15 - search queries obey their documented logic on every annotation.

Engine E1 (algebraic): all annotations up to a size bound over a small pool with a parent/child pair and duplicates x all
query expressions of the grammar up to a depth; base-case semantics from the independent schema model; laws checked on
every (A, B[, C]) combination; parser totality over all token strings up to a length bound.
"""
import itertools

from mc import core, hedgen, schema_model, discover
from mc.hedgen import Leaf, render

ID = "C15"
LEVEL = "model_checking"
RULE = ("annotations: every forest with <= n leaves, <= g groups, depth <= d over {Event, Sensory-event, Red, Blue} (so "
        "every sibling order of every tree occurs); queries: atoms {term, \"term\", term*, ?, ??, ???} and all unary / binary "
        "compositions to the depth bound; laws on all pairs / triples; parser: every token string of length <= L over the "
        "query token alphabet; group objects taken out of an annotation searched on their own in three surroundings; negation of a "
        "term absent from the annotation inside [ ].  state = canonical annotation tree; transition = one search; non-trivial = composite query")
ASSUMPTIONS = [
    "for atomic operands 'A && B via distinct tags' means two different tag occurrences; for compound operands only the "
    "stated laws (symmetric, associative, implies both) are checked",
    "ValueError is the documented parse error",
]

POOL = ["Event", "Sensory-event", "Red", "Blue"]
TERMS = ["event", "sensory-event", "red"]
ATOMS = TERMS + ['"event"', '"red"', "eve*", "re*", "sens*", "?", "??", "???"]


def build_annotations(n, g, d):
    model = schema_model.load(core.SCHEMA_DATA + "/HED8.3.0.xml")
    pool = [Leaf(model.by_short[p.casefold()]) for p in POOL]
    out = []
    for shp in hedgen.shapes(n, g, d):
        for tree in hedgen.fill(shp, pool):
            out.append(tree)
    return out, model


def ref_atom(model, atom, tree):
    """Reference semantics of the three base cases on a generator tree."""
    tags = list(hedgen.leaves(tree))
    if atom.startswith('"'):
        t = atom.strip('"')
        return sum(1 for x in tags if x.node.name.casefold() == t)
    if atom.endswith("*"):
        t = atom[:-1]
        return sum(1 for x in tags if x.node.name.casefold().startswith(t))
    return sum(1 for x in tags if atom in [s.casefold() for s in x.node.terms()])


def tree_groups(tree):
    for it in tree:
        if not isinstance(it, Leaf):
            yield it
            yield from tree_groups(it)


def ref_exact_optional(model, a, b, tree):
    """'{a: b}' for atomic a, b: some group holds a tag matching a, optionally a tag matching b, and nothing else (no other
    tag, no group).  Judged only where no group has two tags matching the same atom or one tag matching both (None
    otherwise: which of several candidate tags is 'the' match is not documented)."""
    res = False
    for G in tree_groups(tree):
        tags = [c for c in G if isinstance(c, Leaf)]
        ma = [t for t in tags if ref_atom(model, a, [t])]
        mb = [t for t in tags if ref_atom(model, b, [t])]
        if len(ma) > 1 or len(mb) > 1 or (ma and mb and ma[0] is mb[0]):
            return None
        if len(tags) != len(G):
            continue
        if len(ma) == 1 and all(t is ma[0] or (mb and t is mb[0]) for t in tags):
            res = True
    return res


def _distinct_pair(model, tags, a, b):
    ma = [i for i, t in enumerate(tags) if ref_atom(model, a, [t])]
    mb = [i for i, t in enumerate(tags) if ref_atom(model, b, [t])]
    return any(i != j for i in ma for j in mb)


def ref_group_and(model, a, b, tree, descendants):
    """'{a && b}': some group has two different direct child tags matching a and b; '[a && b]': some group has two
    different tags matching a and b anywhere below it."""
    for G in tree_groups(tree):
        tags = list(hedgen.leaves(G)) if descendants else [c for c in G if isinstance(c, Leaf)]
        if _distinct_pair(model, tags, a, b):
            return True
    return False


def unary(q):
    out = [f"({q})", f"[{q}]", f"{{{q}}}", f"{{{q}:}}"]
    if "?" not in q:
        out.append(f"~{q}")
    return out


def binary(a, b):
    return [f"{a} && {b}", f"{a} || {b}", f"{{{a}: {b}}}"]


class Env:
    def __init__(self):
        from hed import load_schema_version
        from hed.models.hed_string import HedString
        from hed.models.query_handler import QueryHandler
        self.schema = load_schema_version("8.3.0")
        self.HedString = HedString
        self.QueryHandler = QueryHandler
        self.qcache = {}

    def compile(self, q):
        h = self.qcache.get(q)
        if h is None:
            h = self.QueryHandler(q)
            self.qcache[q] = h
        return h

    def search(self, q, hs):
        return bool(self.compile(q).search(hs))


def worker_laws(rec, shard, nshards, bounds, qdepth, seed):
    n, g, d = bounds
    env = Env()
    anns, model = build_annotations(n, g, d)
    q0 = list(ATOMS)
    q1 = q0 + [u for a in q0 for u in unary(a)]
    q2 = q1 + [b for a in q0 for c in q0 for b in binary(a, c)]
    pair_set = q1 if qdepth >= 2 else q0 + [u for a in q0[:6] for u in unary(a)]
    # all sibling orders of one tree go to the same shard, so the permutation-invariance table is local
    classes = {}
    for t in anns:
        classes.setdefault(hedgen.canon(t), []).append(t)
    keys = sorted(classes, key=repr)
    mine = []
    for ci in core.shard_order(len(keys), shard, nshards, seed):
        mine += classes[keys[ci]]
    rows = {}
    for ai, tree in enumerate(mine):
        text = render(tree)
        hs = env.HedString(text, env.schema)
        before = (str(hs), hs.get_as_long(), [id(t) for t in hs.get_all_tags()])
        rec.state(hedgen.canon(tree))
        cache = {}

        def S(q):
            r = cache.get(q)
            if r is None:
                rec.n("transitions")
                try:
                    r = env.search(q, hs)
                except Exception as e:
                    rec.violation("C15:search-raises:" + type(e).__name__, annotation=text, query=q, error=repr(e)[:200])
                    r = False
                cache[q] = r
            return r

        # base cases
        for a in ATOMS:
            if "?" in a:
                continue
            want = ref_atom(model, a, tree) > 0
            rec.n("evaluations")
            if S(a) != want:
                kind = "quoted" if a.startswith('"') else "star" if a.endswith("*") else "term"
                rec.violation(f"C15:base-case:{kind}", annotation=text, query=a, expected=want, got=S(a))
            # 't && t' needs two tag occurrences
            want2 = ref_atom(model, a, tree) >= 2
            if S(f"{a} && {a}") != want2:
                rec.violation("C15:and-distinct-tags:same-atom", annotation=text, query=f"{a} && {a}", expected=want2)
        for a, b in itertools.permutations([x for x in ATOMS if "?" not in x], 2):
            # distinct witnesses for two different atoms
            tags = list(hedgen.leaves(tree))
            ma = [i for i, x in enumerate(tags) if ref_atom(model, a, [x])]
            mb = [i for i, x in enumerate(tags) if ref_atom(model, b, [x])]
            want = any(i != j for i in ma for j in mb)
            rec.n("evaluations")
            if S(f"{a} && {b}") != want:
                rec.violation("C15:and-distinct-tags:two-atoms", annotation=text, query=f"{a} && {b}", expected=want,
                              got=S(f"{a} && {b}"))
        # laws on pairs
        for a in pair_set:
            for b in pair_set:
                rec.n("evaluations")
                rec.n("distinct_nontrivial")
                ra, rb = S(a), S(b)
                qa, qb = f"({a})", f"({b})"
                r_or = S(f"{qa} || {qb}")
                if r_or != (ra or rb):
                    rec.violation("C15:or-law", annotation=text, a=a, b=b, A=ra, B=rb, got=r_or)
                r_and = S(f"{qa} && {qb}")
                if r_and and not (ra and rb):
                    rec.violation("C15:and-implies-both", annotation=text, a=a, b=b, A=ra, B=rb)
                if r_and != S(f"{qb} && {qa}"):
                    rec.violation("C15:and-not-symmetric", annotation=text, a=a, b=b)
                if S(f"{qb} || {qa}") != r_or:
                    rec.violation("C15:or-not-symmetric", annotation=text, a=a, b=b)
        # associativity on triples of atoms and depth-1 expressions
        trip = q0 if qdepth < 2 else q0 + [u for x in q0[:4] for u in unary(x)][:14]
        for a, b, c in itertools.product(trip, repeat=3):
            rec.n("evaluations")
            l = S(f"(({a}) && ({b})) && ({c})")
            r = S(f"({a}) && (({b}) && ({c}))")
            if l != r:
                rec.violation("C15:and-not-associative", annotation=text, a=a, b=b, c=c, left=l, right=r)
            lo = S(f"(({a}) || ({b})) && ({c})")
            ro = S(f"({c}) && (({b}) || ({a}))")
            if lo != ro:
                rec.violation("C15:or-inside-and-order-dependent", annotation=text, a=a, b=b, c=c, left=lo, right=ro)
        # distribution of && over || (a match of A is a match of A || B, so it can be joined with C):
        # (A || B) && C  <=>  (A && C) || (B && C), with B ranging over conjunctions as well as atoms
        for x, y in itertools.product(q0, repeat=2):
            for a_, b_, c_ in ((x, f"({y} && {x})", y), (f"({y} && {x})", x, y), (x, y, f"({x} || {y})"),
                               (x, f"[{y}]", y), (f"{{{x}}}", y, x)):
                rec.n("evaluations")
                rec.n("distinct_nontrivial")
                lhs = S(f"({a_} || {b_}) && {c_}")
                rhs = S(f"({a_} && {c_}) || ({b_} && {c_})")
                if lhs != rhs:
                    rec.violation("C15:and-does-not-distribute-over-or", annotation=text, a=a_, b=b_, c=c_, lhs=lhs, rhs=rhs)
                if S(f"({b_} || {a_}) && {c_}") != lhs:
                    rec.violation("C15:or-operand-order-changes-conjunction", annotation=text, a=a_, b=b_, c=c_)
        # '{A: B}' = a group holding A, optionally B and nothing else: then it holds exactly A, or exactly A and B
        for a_, b_ in itertools.product([x for x in ATOMS if "?" not in x], repeat=2):
            rec.n("evaluations")
            rec.n("distinct_nontrivial")
            got = S(f"{{{a_}: {b_}}}")
            if got and not S(f"{{{a_}}} || {{{a_} && {b_}}}"):
                rec.violation("C15:exact-with-optional-matches-a-group-holding-something-else", annotation=text, a=a_, b=b_)
            for q_, desc_ in ((f"{{{a_} && {b_}}}", False), (f"[{a_} && {b_}]", True)):
                want_g = ref_group_and(model, a_, b_, tree, desc_)
                if S(q_) != want_g:
                    rec.violation("C15:group-scoped-and-differs-from-reference:" + ("descendant" if desc_ else "same-level"),
                                  annotation=text, query=q_, expected=want_g, got=S(q_))
            want = ref_exact_optional(model, a_, b_, tree)
            if want is not None and got != want:
                rec.violation("C15:exact-with-optional-differs-from-reference", annotation=text, query=f"{{{a_}: {b_}}}",
                              expected=want, got=got)
        # the same annotation written in long form (and in lower case) gives the same answers
        for form_, case_ in (("long", None), ("short", "lower"), ("long", "upper")):
            alt = hedgen.render(tree, form_, case_)
            if alt is None or alt == text:
                continue
            hs_alt = env.HedString(alt, env.schema)
            for q in [a for a in ATOMS] + q2[::11]:
                rec.n("evaluations")
                rec.n("transitions")
                try:
                    r_alt = env.search(q, hs_alt)
                except Exception as e:
                    rec.violation("C15:search-raises:" + type(e).__name__, annotation=alt, query=q, error=repr(e)[:200])
                    continue
                if r_alt != S(q):
                    kind = "star" if q.endswith("*") else "quoted" if q.startswith('"') else "term" if q in ATOMS else "composite"
                    rec.violation(f"C15:spelling-of-the-annotation-changes-result:{kind}", annotation=text, respelled=alt,
                                  query=q, got=r_alt, expected=S(q))
        # all of q2 once (for the permutation-invariance table) + repeatability + purity
        row = tuple(S(q) for q in q2)
        key = hedgen.canon(tree)
        prev = rows.get(key)
        if prev is None:
            rows[key] = (text, row)
        elif prev[1] != row:
            bad = [q for q, x, y in zip(q2, prev[1], row) if x != y]
            rec.violation("C15:sibling-order-changes-result", annotation=text, other_order=prev[0], queries=bad[:5])
        for q in q2[::7]:
            try:
                again = bool(env.QueryHandler(q).search(hs))
            except Exception as e:
                rec.violation("C15:search-raises:" + type(e).__name__, annotation=text, query=q)
                continue
            if again != cache[q]:
                rec.violation("C15:repeated-search-disagrees", annotation=text, query=q)
        after = (str(hs), hs.get_as_long(), [id(t) for t in hs.get_all_tags()])
        if after != before:
            rec.violation("C15:search-altered-annotation", annotation=text, now=after[0])
        rec.outcome("ann:" + str(sum(row)))
        if ai % 401 == 0:
            rec.sample({"annotation": text, "queries_tried": len(cache), "matching": sum(1 for v in cache.values() if v)})


GROUPERS = {"(": ")", "[": "]", "{": "}"}


def balanced(tokens):
    stack = []
    for t in tokens:
        if t in GROUPERS:
            stack.append(GROUPERS[t])
        elif t in GROUPERS.values():
            if not stack or stack.pop() != t:
                return False
        elif t in ("[[", "]]"):
            return False
    return not stack


def worker_parser(rec, shard, nshards, length, seed):
    env = Env()
    hs = env.HedString("(Event, (Red, Blue)), Sensory-event", env.schema)
    alpha = ["a", '"a"', "a*", "?", "??", "???", "&&", "||", "~", "(", ")", "[", "]", "{", "}", ":", ","]
    found = discover.literal_chars("hed/models/query_handler.py", {"_tokenize"})
    extra = []
    if "@" in found:
        extra.append("@a")
    alpha += extra
    total = sum(len(alpha) ** k for k in range(1, length + 1))
    for idx in core.shard_order(total, shard, nshards, seed):
        x = idx
        k = 1
        while x >= len(alpha) ** k:
            x -= len(alpha) ** k
            k += 1
        toks = []
        for _ in range(k):
            toks.append(alpha[x % len(alpha)])
            x //= len(alpha)
        text = " ".join(toks)
        rec.n("evaluations")
        rec.n("transitions")
        try:
            h = env.QueryHandler(text)
            ok = True
        except ValueError:
            ok = False
        except Exception as e:
            rec.violation("C15:parser:raises-" + type(e).__name__, query=text, error=repr(e)[:200])
            continue
        rec.outcome("compiles" if ok else "rejected")
        if ok and not balanced(toks):
            rec.violation("C15:parser:unbalanced-accepted:" + "".join(t for t in toks if t in "()[]{}"), query=text)
        if ok:
            try:
                h.search(hs)
            except Exception as e:
                rec.violation("C15:parser:compiled-query-raises-on-search:" + type(e).__name__, query=text,
                              error=repr(e)[:200])
        if idx % 20011 == 0:
            rec.sample({"query_text": text, "compiles": ok})
    # the double-bracket tokens the tokenizer knows about
    for text in ("[[", "]]", "[[ a ]]", "[[a", "a ]]", "[ [ a ] ]"):
        toks = text.split()
        try:
            env.QueryHandler(text)
            ok = True
        except ValueError:
            ok = False
        except Exception as e:
            rec.violation("C15:parser:raises-" + type(e).__name__, query=text)
            continue
        if ok and not balanced(toks):
            rec.violation("C15:parser:unbalanced-accepted:double-bracket", query=text)


def reorderings(tree):
    """Every tree obtained by permuting the members of every group, recursively (incl. the top level)."""
    variants = []
    for it in tree:
        variants.append([it] if isinstance(it, Leaf) else list(reorderings(it)))
    for combo in itertools.product(*variants):
        for perm in itertools.permutations(combo):
            yield list(perm)


def equal_group_orders(ctx):
    """Annotations holding two groups with equal content: negations and conjunctions over them give the same answer in
    every sibling order (results must be told apart by identity, not by content)."""
    env = Env()
    rec = ctx.rec
    model = schema_model.load(core.SCHEMA_DATA + "/HED8.3.0.xml")
    L = {p: Leaf(model.by_short[p.casefold()]) for p in POOL}
    bases = [[[L["Red"], [L["Event"]]], [L["Blue"], [L["Event"]]]],
             [[L["Red"], [L["Event"]]], [L["Blue"], [L["Event"]]], L["Sensory-event"]],
             [[L["Event"]], [L["Event"]], L["Red"]],
             [[L["Red"], [L["Event"], L["Blue"]]], [[L["Event"], L["Blue"]], L["Sensory-event"]]]]
    atoms = ["event", "red", "blue", "sensory-event"]
    queries = []
    for a, b, c in itertools.permutations(atoms, 3):
        queries += [f"{{[~{a} && ~{b}] && {c}}}", f"[~{a} || (~{b} && ~{c})]", f"[~{a} && ~{b}] && {c}",
                    f"{{~{a} && {c}}}", f"[ [~{a}] && {c} ]"]
    for base in bases:
        seen = {}
        for tree in reorderings(base):
            text = render(tree)
            if text in seen:
                continue
            hs = env.HedString(text, env.schema)
            row = []
            for q in queries:
                rec.n("evaluations")
                rec.n("transitions")
                rec.n("distinct_nontrivial")
                try:
                    row.append(env.search(q, hs))
                except Exception as e:
                    rec.violation("C15:search-raises:" + type(e).__name__, annotation=text, query=q, error=repr(e)[:200])
                    row.append(None)
            seen[text] = row
        first_text, first = next(iter(seen.items()))
        for text, row in seen.items():
            if row != first:
                bad = [q for q, x, y in zip(queries, first, row) if x != y]
                rec.violation("C15:sibling-order-changes-result:equal-groups", annotation=text, other_order=first_text,
                              queries=bad[:4])
                break
        rec.state(("equal-groups", hedgen.canon(base)))
        rec.outcome("equal-groups")


def changed_annotation_check(ctx):
    """An annotation object that was changed (definitions expanded / shrunk) answers like a fresh parse of its text."""
    from hed.models.definition_dict import DefinitionDict
    env = Env()
    rec = ctx.rec
    dd = DefinitionDict(["(Definition/MyDef, (Red, (Blue, Event)))", "(Definition/Vd/#, (Label/#, Sensory-event))"], env.schema)
    texts = ["Def/MyDef, Clap", "(Def/MyDef, Blue), Def/Vd/abc", "(Def-expand/MyDef, (Red, (Blue, Event))), Clap",
             "((Def-expand/Vd/abc, (Label/abc, Sensory-event))), Def/MyDef"]
    queries = ["def", "def-expand", "{def-expand}", '"Def-expand/MyDef"', '"Def/MyDef"', "def-exp*", "def/my*", "red", "event",
               "[def-expand && red]", "{def && clap}", "~def", "~def-expand", "informational-property", "label",
               # across the boundary of a replaced part: inside && outside, negation, descendant group
               "red && clap", "[red] && clap", "~event", "~sensory-event", "[blue && event]", "{red, clap}", "label && def",
               "[label] && def"]
    for text in texts:
        for hist in itertools.product(("expand", "shrink", "copy", "replace-defs"), repeat=2):
            hs = env.HedString(text, env.schema, dd)
            try:
                for op in hist:
                    if op == "expand":
                        hs.expand_defs()
                    elif op == "shrink":
                        hs.shrink_defs()
                    elif op == "replace-defs":
                        # what HedTagManager.get_hed_objs(replace_defs=True) does: each Def tag gives way to its contents
                        for def_tag in hs.find_def_tags(recursive=True, include_groups=0):
                            if def_tag.expandable is not None:
                                hs.replace(def_tag, def_tag.expandable.get_first_group())
                    else:
                        hs = hs.copy()
                fresh = env.HedString(str(hs), env.schema, dd)
                for q in queries:
                    rec.n("evaluations")
                    rec.n("transitions", 2)
                    rec.n("distinct_nontrivial")
                    a, b = env.search(q, hs), env.search(q, fresh)
                    if a != b:
                        rec.violation("C15:changed-annotation-answers-unlike-a-fresh-parse-of-its-text", start=text,
                                      history=list(hist), now=str(hs), query=q, got=a, fresh=b)
                        raise StopIteration
            except StopIteration:
                pass
            except Exception as e:
                rec.violation("C15:search-raises:" + type(e).__name__, annotation=text, history=list(hist), error=repr(e)[:200])
            rec.state(("changed", text, hist))
        rec.outcome("changed-annotation")


def group_object_check(ctx):
    """A group taken out of a parsed annotation (hs.groups()[i], a member of get_all_groups()) is searched on its own
    members only: the answer does not depend on what surrounds the group, and for queries without [ ] and { } (which also
    see the searched group itself, a group object unlike a top level) it equals that of a fresh annotation made of the
    group's members."""
    env = Env()
    rec = ctx.rec
    trees, _ = build_annotations(3, 2, 2)
    queries = list(ATOMS)
    for a in ATOMS:
        queries += unary(a)
    for a, b in itertools.product(["red", "event", "?", "??", "???", "re*"], repeat=2):
        queries += binary(a, b)
    queries = list(dict.fromkeys(queries))
    surroundings = ["({g})", "Blue, ({g}), (Red, (Event))", "((({g}), Red), Sensory-event)"]
    seen = set()
    for tree in trees:
        inner = render(tree)
        if inner in seen or not inner:
            continue
        seen.add(inner)
        fresh = env.HedString(inner, env.schema)
        want = {}
        for q in queries:
            try:
                want[q] = env.search(q, fresh)
            except Exception as e:
                want[q] = "raises:" + type(e).__name__
        for sur in surroundings:
            text = sur.replace("{g}", inner)
            hs = env.HedString(text, env.schema)
            target = [g for g in hs.get_all_groups() if g is not hs and str(g).replace(" ", "") == "(" + inner.replace(" ", "") + ")"]
            if not target:
                rec.violation("C15:group-object:not-found-in-annotation", annotation=text, group=inner)
                continue
            g = target[0]
            rec.state(("group-object", inner, sur))
            if sur == surroundings[0]:
                for q in queries:
                    if "[" in q or "{" in q:
                        try:
                            want[q] = env.search(q, g)
                        except Exception as e:
                            want[q] = "raises:" + type(e).__name__
            for q in queries:
                rec.n("evaluations")
                rec.n("transitions")
                rec.n("distinct_nontrivial")
                try:
                    got = env.search(q, g)
                except Exception as e:
                    got = "raises:" + type(e).__name__
                if got != want[q]:
                    rec.violation("C15:group-object:answer-depends-on-what-surrounds-the-group", annotation=text, group=inner,
                                  query=q, got=got, members_alone=want[q])
                    break
    rec.outcome("group-object")


def absent_negation_check(ctx):
    """A term that occurs nowhere in the annotation: its negation holds of every group, so inside [ ] it asks for nothing
    more than a parenthesised group - `[~T]` is "there is a group", `[X && ~T]` is `[X]`, `[~(T || U)]` likewise."""
    env = Env()
    rec = ctx.rec
    trees, _ = build_annotations(3, 2, 2)
    terms = TERMS + ["blue", "clap"]
    others = ["red", "event", "blue", "?", "??", "re*"]
    seen = set()
    for tree in trees:
        text = render(tree)
        if text in seen or not text:
            continue
        seen.add(text)
        hs = env.HedString(text, env.schema)
        has_group = "(" in text
        absent = [t for t in terms if not env.search(t, hs)]
        rec.state(("absent-negation", text))
        for t in absent:
            cases = [(f"[~{t}]", has_group, "there is a group"), (f"[(~{t})]", has_group, "there is a group"),
                     (f"{{[~{t}]}}", None, None)]
            for u in absent:
                if u != t:
                    cases.append((f"[~({t} || {u})]", has_group, "there is a group"))
                    cases.append((f"[~{t} && ~{u}]", has_group, "there is a group"))
            for x in others:
                if x != t:
                    cases.append((f"[{x} && ~{t}]", env.search(f"[{x}]", hs), f"[{x}]"))
                    cases.append((f"[~{t} && {x}]", env.search(f"[{x}]", hs), f"[{x}]"))
            for q, want, why in cases:
                if want is None:
                    continue
                rec.n("evaluations")
                rec.n("transitions")
                rec.n("distinct_nontrivial")
                try:
                    got = env.search(q, hs)
                except Exception as e:
                    rec.violation("C15:search-raises:" + type(e).__name__, annotation=text, query=q, error=repr(e)[:200])
                    continue
                if got != bool(want):
                    rec.violation("C15:negation-of-an-absent-term-inside-brackets", annotation=text, query=q, got=got,
                                  expected=bool(want), same_as=why)
                    break
    rec.outcome("absent-negation")


def chain_check(ctx):
    """Chains of three and four operands of one operator written without parentheses: the answer is that of the left-nested
    parenthesised query (and, for '||', of 'some operand matches')."""
    env = Env()
    rec = ctx.rec
    atoms = ["event", "sensory-event", "red", "blue", '"red"', "sens*", "~red", "{red}"]
    anns, _ = build_annotations(3, 1, 1)
    objs = [env.HedString(render(t), env.schema) for t in anns]
    single = {a: [bool(env.search(a, o)) for o in objs] for a in atoms}
    for n in (3, 4):
        for combo in itertools.product(atoms[:6] if n == 4 else atoms, repeat=n):
            for op in ("||", "&&"):
                flat = f" {op} ".join(combo)
                nested = combo[0]
                for c in combo[1:]:
                    nested = f"({nested} {op} {c})"
                rec.n("evaluations", len(objs))
                rec.n("transitions", len(objs))
                rec.n("distinct_nontrivial", len(objs))
                rec.state(("chain", n, op, tuple(sorted(set(combo)))))
                try:
                    a = [bool(env.search(flat, o)) for o in objs]
                    b = [bool(env.search(nested, o)) for o in objs]
                except Exception as e:
                    rec.violation("C15:chain:raises:" + type(e).__name__, query=flat, error=repr(e)[:200])
                    continue
                if a != b:
                    k = next(i for i, (x, y) in enumerate(zip(a, b)) if x != y)
                    rec.violation(f"C15:chain:unparenthesised-chain-differs-from-left-nested:{op}:{n}", query=flat, nested=nested,
                                  annotation=str(objs[k]), flat=a[k], parenthesised=b[k])
                elif op == "||":
                    want = [any(single[c][i] for c in combo) for i in range(len(objs))]
                    if a != want:
                        k = next(i for i, (x, y) in enumerate(zip(a, want)) if x != y)
                        rec.violation(f"C15:chain:or-chain-is-not-some-operand-matches:{n}", query=flat, annotation=str(objs[k]),
                                      got=a[k], operands={c: single[c][k] for c in combo})
    rec.outcome("chains")
    # an '||' as an operand: '(a || b) op c' answers like '(b || a) op c' (negations among the operands, annotations with two
    # groups)
    anns2, _ = build_annotations(4, 2, 1)
    objs2 = [env.HedString(render(t), env.schema) for t in anns2 if sum(1 for x in t if isinstance(x, list)) == 2]
    atoms2 = ["red", "blue", "event", "sensory-event", "~red", "~blue", "~event"]
    for a, b in itertools.combinations(atoms2, 2):
        for c in atoms2:
            for tmpl in ("({0} || {1}) && {2}", "{2} && ({0} || {1})", "[({0} || {1}) && {2}]"):
                q1, q2 = tmpl.format(a, b, c), tmpl.format(b, a, c)
                rec.n("evaluations", len(objs2))
                rec.n("transitions", len(objs2))
                rec.n("distinct_nontrivial", len(objs2))
                try:
                    r1 = [bool(env.search(q1, o)) for o in objs2]
                    r2 = [bool(env.search(q2, o)) for o in objs2]
                except Exception as e:
                    rec.violation("C15:chain:raises:" + type(e).__name__, query=q1, error=repr(e)[:200])
                    continue
                if r1 != r2:
                    k = next(i for i, (x, y) in enumerate(zip(r1, r2)) if x != y)
                    rec.violation("C15:or-operand:alternatives-swapped-changes-the-answer", query=q1, swapped=q2,
                                  annotation=str(objs2[k]), answer=r1[k], answer_swapped=r2[k])
    rec.outcome("or-operands")
    # one atom k times: '&&' matches via distinct tags, so the chain matches exactly when k tags match the atom
    # (annotations with repeated tags allowed: the counting is what is asked, not whether the annotation validates)
    pool_names = ["Red", "Red", "Event", "Sensory-event", "Blue"]
    for size in (1, 2, 3, 4):
        for combo in itertools.combinations_with_replacement(range(len(pool_names)), size):
            names = [pool_names[i] for i in combo]
            for text in (", ".join(names), "(" + ", ".join(names) + ")"):
                hs = env.HedString(text, env.schema)
                for atom, hits in (("red", names.count("Red")), ("event", names.count("Event") + names.count("Sensory-event")),
                                   ('"event"', names.count("Event")), ("sens*", names.count("Sensory-event"))):
                    for k in (2, 3, 4):
                        q = " && ".join([atom] * k)
                        rec.n("evaluations")
                        rec.n("transitions")
                        rec.n("distinct_nontrivial")
                        try:
                            got = bool(env.search(q, hs))
                        except Exception as e:
                            rec.violation("C15:chain:raises:" + type(e).__name__, query=q, error=repr(e)[:200])
                            continue
                        if got != (hits >= k):
                            rec.violation(f"C15:chain:same-atom-{k}-times-does-not-count-distinct-tags", query=q, annotation=text,
                                          tags_matching_the_atom=hits, got=got)
    rec.outcome("distinct-tags")
    # terms that contain a dot (decimal values, dotted labels) are ordinary terms
    dotted = env.HedString("Label/v1.2, Item-count/1.5, Red", env.schema)
    for q, want in (("Item-count/1.5", None), ('"Label/v1.2"', True), ("Label/v1.*", True), ('"Label/v1.3"', False),
                    ("{Label/v1.2, Red:}", None), ("Label/v1.2 && Red", None), ('"Item-count/1.5" && red', True),
                    ("Label/v2.*", False)):
        rec.n("evaluations")
        rec.n("distinct_nontrivial")
        try:
            got = bool(env.search(q, dotted))
        except Exception as e:
            rec.violation("C15:parser:well-formed-rejected:term-with-a-dot", query=q, error=repr(e)[:200])
            continue
        if want is not None and got != want:
            rec.violation("C15:term-with-a-dot:wrong-answer", query=q, annotation=str(dotted), got=got)
    rec.outcome("dotted-terms")


def service_check(ctx):
    """query_service interface agrees with per-handler search."""
    import pandas as pd
    from hed.models import query_service
    env = Env()
    rec = ctx.rec
    queries = ["event", "red && blue", "{red, blue}", "[sensory-event]", "~red"]
    try:
        handlers, names, issues = query_service.get_query_handlers(queries, None)
    except Exception as e:
        rec.violation("C15:service:get_query_handlers-raises:" + type(e).__name__, error=repr(e)[:200])
        return
    anns, _ = build_annotations(2, 1, 1)
    objs = [env.HedString(render(t), env.schema) for t in anns]
    try:
        df = query_service.search_hed_objs(objs, handlers, names)
    except Exception as e:
        rec.violation("C15:service:search_hed_objs-raises:" + type(e).__name__, error=repr(e)[:200])
        return
    for qi, q in enumerate(queries):
        col = list(df[names[qi]])
        want = [1 if env.search(q, o) else 0 for o in objs]
        rec.n("evaluations", len(objs))
        if [int(x) for x in col] != want:
            rec.violation("C15:service:differs-from-handler", query=q)
    # rows without annotation (None / empty) anywhere in the list count as 'no match' and do not disturb their neighbours
    base = {names[qi]: [int(x) for x in df[names[qi]]] for qi in range(len(queries))}
    for gap in (None, env.HedString("", env.schema)):
        for every in (1, 2, 3):
            mixed, origin = [], []
            for k, o in enumerate(objs):
                mixed.append(o)
                origin.append(k)
                if k % every == 0:
                    mixed.append(gap)
                    origin.append(None)
            for lst, org in ((mixed, origin), ([gap] + mixed, [None] + origin)):
                try:
                    dfm = query_service.search_hed_objs(lst, handlers, names)
                except Exception as e:
                    rec.violation("C15:service:search_hed_objs-raises-with-unannotated-rows:" + type(e).__name__,
                                  error=repr(e)[:200])
                    continue
                rec.n("evaluations", len(lst))
                rec.n("distinct_nontrivial", len(lst))
                for qi, q in enumerate(queries):
                    col = [int(x) for x in dfm[names[qi]]]
                    want = [0 if k is None else base[names[qi]][k] for k in org]
                    if col != want:
                        first = next(i for i, (x, y) in enumerate(zip(col, want)) if x != y)
                        rec.violation("C15:service:unannotated-row-changes-factors", query=q, position=first,
                                      row_is_gap=org[first] is None, got=col[first], expected=want[first])
    _, _, issues = query_service.get_query_handlers(["(red", "blue"], None)
    if not issues:
        rec.violation("C15:service:bad-query-not-reported", query="(red")
    # a rejected query keeps its place: the handler at position i belongs to query i
    for batch in (["(red", "blue", "event"], ["blue", "red)", "event"], ["[[red", "(blue", "sensory-event"]):
        rec.n("evaluations", len(batch))
        try:
            hs_, names_, _ = query_service.get_query_handlers(batch, None)
        except Exception as e:
            rec.violation("C15:service:get_query_handlers-raises:" + type(e).__name__, queries=batch, error=repr(e)[:200])
            continue
        ok = len(hs_) == len(batch)
        for i, q in enumerate(batch):
            if not ok:
                break
            try:
                env.compile(q)
                good = True
            except Exception:
                good = False
            if good != (hs_[i] is not None):
                ok = False
            elif good and [bool(hs_[i].search(o)) for o in objs] != [env.search(q, o) for o in objs]:
                ok = False
        if not ok:
            rec.violation("C15:service:handlers-not-aligned-with-their-queries", queries=batch,
                          handlers=[None if h is None else "handler" for h in hs_])


def run(ctx):
    bounds = ctx.pick((3, 2, 2), (4, 2, 3))
    qdepth = ctx.pick(1, 2)
    plen = ctx.pick(4, 5)
    ctx.rec.notes["bounds"] = {"annotations(n,g,d)": bounds, "pair_law_operand_depth": qdepth if not ctx.thorough else {"(4,2,3)": 1, "(3,2,2)": 2}, "parser_token_length": plen,
                               "atoms": ATOMS, "pool": POOL}
    if ctx.thorough:
        # the deep annotation bound with depth-1 operands, and the quick annotation bound with depth-2 operands
        # (both at once is ~2e9 searches)
        ctx.parallel(worker_laws, bounds, 1, ctx.seed)
        ctx.parallel(worker_laws, (3, 2, 2), 2, ctx.seed)
    else:
        ctx.parallel(worker_laws, bounds, qdepth, ctx.seed)
    ctx.parallel(worker_parser, plen, ctx.seed)
    service_check(ctx)
    equal_group_orders(ctx)
    changed_annotation_check(ctx)
    group_object_check(ctx)
    absent_negation_check(ctx)
    chain_check(ctx)
    ctx.rec.counts["states"] = len(ctx.rec.states)


def replay(ctx, case):
    env = Env()
    out = []
    if "query" in case and "annotation" not in case:
        try:
            env.QueryHandler(case["query"])
            out.append(("C15:replay:compiles", {"query": case["query"]}))
        except ValueError:
            pass
    elif "annotation" in case:
        hs = env.HedString(case["annotation"], env.schema)
        res = {}
        for k in ("query",):
            if k in case:
                res[case[k]] = env.search(case[k], hs)
        for k in ("a", "b", "c"):
            if k in case:
                res[case[k]] = env.search(case[k], hs)
        out.append(("C15:replay:values", {"annotation": case["annotation"], "results": res}))
    return out
