"""C19 - the schema cache never serves or keeps a torn schema file.

Engine E3: the real functions of hed.schema.hed_cache / hed_cache_lock / hed_schema_io run as threads-as-processes under
the baton scheduler (mc.sched); os / shutil / open / time / portalocker / URL helpers of those modules are interposed, so every
file operation is a scheduling point and every point of a victim process is a crash point.  Exploration is exhaustive up to
a deviation bound (preemptions, lock time-outs, crashes), iterated 0, 1, 2, (3).
"""
import hashlib
import io
import itertools
import json
import os
import shutil

from mc import core, sched

ID = "C19"
LEVEL = "model_checking"
RULE = ("harnesses: H0 every leftover cache directory (installed files x stale temp copy x lock file x time stamp) then a "
        "load of each version; H1 two populators || one loader on an empty cache; H2 one populator crashed at every point, then loader, "
        "populator, loader; H3 populator || populator; H4 two CacheLock holders (time-out allowed to fire; H4m: one of them records the refresh time), H4c three holders; H8 slow lock holder || loader (the loader's lock attempts may time out, empty and half-filled cache); H9 sequential refresh histories with the cached file torn / replaced / deleted in between; H5c two time-recording refreshers at one clock time; H5 refresh interval "
        "x clock answers x torn time-stamp files; H6 network refresh (fake server) crashed at every point || loader; H7 network refresh whose download is cut after k bytes (real url_to_file over a fake response); H8l the slow holder beside a loader of a bundled library schema; H10 / H10c get_library_data: one reader crashed at every point / two readers interleaved, then a reader in a fresh process without network; H11 merged requests `a,b` of two bundled libraries from every partly filled cache directory (sequential).  Every "
        "execution with <= B deviations (preemption of a runnable process, lock time-out, crash) is run on the real functions; "
        "state = (directory contents, lock holder, per-process program point) reached after each step; transition = one "
        "interposed operation; non-trivial = execution with at least one deviation")
ASSUMPTIONS = [
    "a single interposed file-system call is atomic (kernel semantics); a reader sees a snapshot of the file it opens",
    "the lock model (exclusive, blocking until released or until the time-out fires, released on process death, attached to "
    "the file opened at acquire time - removing the path makes later comers lock a new file) stands in for "
    "portalocker; its conformance with the real portalocker is checked by ./check --selftest with two real processes",
    "processes are modelled as threads: process-local state (lru caches, HED_CACHE_DIRECTORY, os.getpid) is given per process "
    "or reset per execution",
    "installed schema set reduced to three bundled files (quick: 8.3.0, 8.2.0, testlib_2.0.0; H11 adds score_1.1.0 for its own runs) / four (thorough)",
]

CUR = None          # the current sched.Execution
WORLD = None


def sha(b):
    return hashlib.sha1(b).hexdigest()


# ---- interposers ------------------------------------------------------------------------------------------------------

QUIET = False       # set while the thread holding the baton runs the (memoised, pure) XML parse


def pt(kind, detail=""):
    x = CUR
    if x is None or QUIET:
        return "go"
    return x.point(kind, detail)


class PathProxy:
    def exists(self, p):
        pt("exists", p)
        return os.path.exists(p)

    def isdir(self, p):
        pt("isdir", p)
        return os.path.isdir(p)

    def __getattr__(self, n):
        return getattr(os.path, n)


class OsProxy:
    path = PathProxy()

    def listdir(self, p):
        pt("listdir", p)
        return sorted(os.listdir(p))

    def makedirs(self, p, *a, **kw):
        pt("makedirs", p)
        return os.makedirs(p, *a, **kw)

    def replace(self, a, b):
        pt("replace", b)
        return os.replace(a, b)

    def remove(self, p):
        pt("remove", p)
        r = os.remove(p)
        x = CUR
        if x is not None:
            # a lock belongs to the file that was opened, not to the path: a removed path names a new file from now on
            gens = x.__dict__.setdefault("file_generation", {})
            gens[p] = gens.get(p, 0) + 1
        return r

    def getpid(self):
        x = CUR
        me = x.me() if x is not None else None
        return 1000 + (me.pid if me is not None else 0)

    def __getattr__(self, n):
        return getattr(os, n)


def stepped_copy(src, dst):
    if os.path.isdir(dst):
        dst = os.path.join(dst, os.path.basename(src))
    with open(src, "rb") as f:
        data = f.read()
    pt("copy:create", dst)
    with open(dst, "wb"):
        pass
    pt("copy:first-half", dst)
    with open(dst, "ab") as f:
        f.write(data[:len(data) // 2])
    pt("copy:rest", dst)
    with open(dst, "ab") as f:
        f.write(data[len(data) // 2:])
    return dst


class ShutilProxy:
    copy = staticmethod(stepped_copy)
    copy2 = staticmethod(stepped_copy)
    copyfile = staticmethod(stepped_copy)

    @staticmethod
    def move(src, dst):
        # across file systems shutil.move copies in place and removes the source
        stepped_copy(src, dst)
        pt("remove", src)
        os.remove(src)
        return dst

    def __getattr__(self, n):
        return getattr(shutil, n)


class WFile:
    def __init__(self, path, mode):
        self.path, self.buf, self.binary = path, ("" if "b" not in mode else b""), "b" in mode
        pt("open-for-write", path)
        if "x" in mode and os.path.exists(path):
            raise FileExistsError(17, "File exists", path)
        if "a" in mode and os.path.exists(path):
            with open(path, "rb") as f:
                old = f.read()
            self.buf = old if self.binary else old.decode("utf8", "replace")
            return
        with open(path, "wb"):
            pass

    def write(self, d):
        pt("write", self.path)
        self.buf += d
        # written data may reach the disk at any time: make the partial content visible
        with open(self.path, "wb" if self.binary else "w") as f:
            f.write(self.buf[:max(1, len(self.buf) // 2)] if len(self.buf) > 1 else self.buf)
        return len(d)

    def close(self):
        pt("close", self.path)
        with open(self.path, "wb" if self.binary else "w") as f:
            f.write(self.buf)

    def __enter__(self):
        return self

    def __exit__(self, et, ev, tb):
        if et is not None and issubclass(et, sched.Crash):
            return False
        self.close()
        return False


def open_proxy(path, mode="r", *a, **kw):
    if any(c in mode for c in "wax+"):
        return WFile(path, mode)
    pt("open-read", path)
    with open(path, "rb") as f:
        data = f.read()
    return io.BytesIO(data) if "b" in mode else io.StringIO(data.decode("utf8", "replace"))


class TimeProxy:
    def time(self):
        pt("time")
        x = CUR
        me = x.me() if x is not None else None
        return WORLD.clock.get(me.pid if me is not None else 0, WORLD.clock.get("default", 1.0e9))


class ModelLock:
    """Stand-in for portalocker.Lock (see ASSUMPTIONS): nothing happens at construction."""

    def __init__(self, filename, timeout=None, fail_when_locked=False, **kw):
        self.filename = filename
        self.held = False
        self.fail_when_locked = fail_when_locked      # portalocker: do not wait, fail at the first contended attempt

    def _key(self):
        x = CUR
        gen = x.__dict__.get("file_generation", {}).get(self.filename, 0) if x is not None else 0
        return self.filename if not gen else f"{self.filename}#{gen}"

    def acquire(self, *a, **kw):
        import portalocker
        # the file is opened (created if need be) first; the wait is for the lock of that very file
        if not os.path.exists(self.filename):
            with open(self.filename, "a"):
                pass
        self.key = self._key()
        if self.fail_when_locked and CUR is not None:
            pt("lock-try", self.key)
            x = CUR
            me = x.me()
            if not x.lock_free(self.key, me.pid):
                raise portalocker.exceptions.AlreadyLocked("model lock held (fail_when_locked)")
            x.locks[self.key] = me.pid
            self.held = True
            return self
        mode = pt("lock-acquire", self.key)
        if mode == "timeout":
            raise portalocker.exceptions.AlreadyLocked("model lock time-out")
        x = CUR
        if x is None:
            if WORLD.seq_locks.get(self.filename):
                raise portalocker.exceptions.AlreadyLocked("model lock held")
            WORLD.seq_locks[self.filename] = True
        if not os.path.exists(self.filename):
            with open(self.filename, "a"):
                pass
        self.held = True
        return self

    def release(self):
        pt("lock-release", self.filename)
        x = CUR
        if x is not None:
            me = x.me()
            key = getattr(self, "key", self.filename)
            if me is not None and x.locks.get(key) == me.pid:
                del x.locks[key]
        else:
            WORLD.seq_locks.pop(self.filename, None)
        self.held = False

    __enter__ = acquire

    def __exit__(self, *a):
        self.release()


class PortalockerProxy:
    Lock = ModelLock

    def __getattr__(self, n):
        import portalocker
        return getattr(portalocker, n)


class World:
    """Scratch directories + installation of the interposers (once per worker process)."""

    def __init__(self, root, files):
        import hed.schema.hed_cache as hc
        import hed.schema.hed_cache_lock as hcl
        import hed.schema.hed_schema_io as hio
        self.hc, self.hcl, self.hio = hc, hcl, hio
        self.root = root
        self.installed = os.path.join(root, "installed")
        self.cache = os.path.join(root, "cache")
        self.tmp = os.path.join(root, "tmp")
        os.makedirs(self.installed, exist_ok=True)
        os.makedirs(self.tmp, exist_ok=True)
        self.bytes = {}
        for f in files:
            with open(os.path.join(core.SCHEMA_DATA, f), "rb") as fh:
                self.bytes[f] = fh.read()
            with open(os.path.join(self.installed, f), "wb") as fh:
                fh.write(self.bytes[f])
        self.clock = {}
        self.seq_locks = {}
        self.parse_memo = {}
        self.reads = []
        self.orig_load_schema = hio.load_schema
        hc.os = OsProxy()
        hc.shutil = ShutilProxy()
        hc.copyfile = stepped_copy
        hc.open = open_proxy
        hc.INSTALLED_CACHE_LOCATION = self.installed
        hcl.os = OsProxy()
        hcl.open = open_proxy
        hcl.time = TimeProxy()
        hcl.portalocker = PortalockerProxy()
        hio.load_schema = self.load_schema
        hc.url_to_file = self.url_to_file
        hc.make_url_request = self.make_url_request
        self.server = {}

    def reset(self, initial=None):
        shutil.rmtree(self.cache, ignore_errors=True)
        os.makedirs(self.cache)
        for name, data in (initial or {}).items():
            with open(os.path.join(self.cache, name), "wb") as f:
                f.write(data)
        self.hc.HED_CACHE_DIRECTORY = self.cache
        self.hio._load_schema_version.cache_clear()
        self.hc.get_library_data.cache_clear()
        self.reads = []
        self.seq_locks = {}
        self.clock = {}
        for f in os.listdir(self.tmp):
            os.remove(os.path.join(self.tmp, f))

    # memoised parse: a pure function of the bytes read at the read point
    def load_schema(self, hed_path=None, schema_namespace=None, schema=None, name=None):
        from hed.errors.exceptions import HedFileError
        if not hed_path or schema is not None or not str(hed_path).lower().endswith(".xml"):
            return self.orig_load_schema(hed_path, schema_namespace=schema_namespace, schema=schema, name=name)
        pt("read-snapshot", hed_path)
        try:
            with open(hed_path, "rb") as f:
                data = f.read()
        except OSError as e:
            self.reads.append((os.path.basename(hed_path), "missing"))
            raise HedFileError("fileNotFound", str(e), hed_path)
        h = sha(data)
        self.reads.append((os.path.basename(hed_path), h))
        memo = self.parse_memo.get(h)
        if memo is None:
            tmp = os.path.join(self.root, f"parse_{os.getpid()}_{h}.xml")
            with open(tmp, "wb") as f:
                f.write(data)
            global QUIET
            QUIET = True
            try:
                memo = ("ok", self.orig_load_schema(tmp, name=name))
            except BaseException as e:   # noqa
                memo = ("err", e)
            finally:
                QUIET = False
                os.remove(tmp)
            self.parse_memo[h] = memo
        if memo[0] == "err":
            raise memo[1]
        return memo[1]

    # fake download server
    def make_url_request(self, url, *a, **kw):
        pt("url-request", url)
        body = self.server.get(("listing", url))
        if body is None:
            import urllib.error
            raise urllib.error.URLError("no such url in the fake server: " + url)
        return io.BytesIO(json.dumps(body).encode())

    def url_to_file(self, url, *a, **kw):
        pt("url-download", url)
        data = self.server.get(("file", url))
        if data is None:
            return None
        x = CUR
        me = x.me() if x is not None else None
        path = os.path.join(self.tmp, f"dl_{me.pid if me else 0}_{len(os.listdir(self.tmp))}.xml")
        with open(path, "wb") as f:
            f.write(data)
        return path

    def cache_listing(self):
        out = {}
        for f in sorted(os.listdir(self.cache)):
            p = os.path.join(self.cache, f)
            if os.path.isfile(p):
                with open(p, "rb") as fh:
                    out[f] = fh.read()
        return out


# ---- process bodies -----------------------------------------------------------------------------------------------------

def populate():
    return ("populate", WORLD.hc.cache_local_versions(WORLD.cache))


def make_loader(version):
    def loader():
        from hed.errors.exceptions import HedFileError
        try:
            s = WORLD.hio.load_schema_version(version)
            return ("load", version, "ok", s.version_number if hasattr(s, "version_number") else str(s))
        except HedFileError as e:
            return ("load", version, "HedFileError", f"{e.code}: {str(e.message)[:120]}")
        except sched.Crash:
            raise
        except BaseException as e:
            return ("load", version, type(e).__name__, repr(e)[:160])
    return loader


def version_file(version):
    return f"HED{version}.xml" if "_" not in version else f"HED_{version}.xml"


def torn_files(listing, world):
    """Files under a final schema name whose bytes are not an installed / served complete content."""
    bad = {}
    for name, data in listing.items():
        if world.hc.version_pattern.match(name):
            ok = [world.bytes.get(name)] + [v for (k, u), v in world.server.items() if k == "file"] + \
                list(world.extra_ok.get(name, []))
            if data not in ok:
                bad[name] = len(data)
    return bad


# ---- harnesses ------------------------------------------------------------------------------------------------------------

def run_exec(world, procs, choices, initial=None, clock=None, crash=True):
    global CUR
    world.reset(initial)
    if clock:
        world.clock.update(clock)
    x = sched.Execution(procs, choices, crash_allowed=crash)
    CUR = x
    try:
        x.run()
    finally:
        CUR = None
    return x


def check_common(rec, world, x, harness, versions, populators_finished):
    listing = world.cache_listing()
    where = {"harness": harness, "choices": x.taken, "deviations": x.deviations,
             "schedule": [(pid, v, k, os.path.basename(str(d))) for pid, v, k, d in x.log][-40:]}
    rec.n("evaluations")
    rec.n("transitions", len(x.points))
    if x.deviations:
        rec.n("distinct_nontrivial")
    for p in x.procs:
        if p.error is not None:
            rec.violation(f"C19:{harness}:process-raised:{type(p.error).__name__}", process=p.name, error=repr(p.error)[:200], **where)
        r = p.result
        if r and r[0] == "load":
            rec.outcome(f"{harness}:load:{r[2]}")
            if r[2] != "ok":
                rec.violation(f"C19:{harness}:load-failed:{r[2]}:{str(r[3]).split(':')[0]}", process=p.name, detail=r[3], **where)
    # every schema file the loaders parsed was a complete bundled / served content
    for name, h in world.reads:
        ok = [sha(world.bytes[name])] if name in world.bytes else []
        ok += [sha(v) for (k, u), v in world.server.items() if k == "file"]
        ok += [sha(v) for v in world.extra_ok.get(name, [])]
        if h != "missing" and h not in ok:
            rec.violation(f"C19:{harness}:loader-read-torn-file", file=name, **where)
    bad = torn_files(listing, world)
    if bad:
        rec.violation(f"C19:{harness}:torn-file-kept-under-final-name", files=bad, **where)
    if populators_finished:
        for name, data in world.bytes.items():
            if listing.get(name) != data:
                rec.violation(f"C19:{harness}:finished-population-not-byte-identical", file=name,
                              have=None if name not in listing else len(listing[name]), want=len(data), **where)
                break
    rec.state((harness, tuple(sorted((k, len(v)) for k, v in listing.items())), tuple(x.locks.items())))
    return listing


def diverged(rec):
    """A schedule prefix taken from one execution does not replay: the library kept state from an earlier execution in the
    process (the world is rebuilt before every execution), so what a process does depends on what it did before."""
    def report(prefix, e):
        rec.violation("C19:behaviour-depends-on-earlier-executions-in-the-process", prefix=list(prefix), detail=str(e))
    return report


def shard_filter(shard, nshards):
    return lambda k: (k % nshards == shard) if k >= 0 else shard == 0


def h1(rec, world, shard, nshards, bound, versions):
    procs = [("populator-1", populate, False), ("populator-2", populate, False), ("loader", make_loader(versions[0]), False)]

    def mk(choices):
        return run_exec(world, procs, choices, crash=False)

    def chk(x):
        fin = all(p.state == "done" and p.result == ("populate", None) for p in x.procs[:2])
        check_common(rec, world, x, "H1", versions, fin)
    return sched.explore(mk, bound, chk, shard_filter(shard, nshards), on_divergence=diverged(rec))


def h3(rec, world, shard, nshards, bound, versions):
    procs = [("populator-1", populate, False), ("populator-2", populate, False)]

    def mk(choices):
        return run_exec(world, procs, choices, crash=False)

    def chk(x):
        check_common(rec, world, x, "H3", versions, True)
    return sched.explore(mk, bound, chk, shard_filter(shard, nshards), on_divergence=diverged(rec))


def h2(rec, world, shard, nshards, versions):
    """Populator crashed at every point (and not at all), then loader, populator, loader - sequentially."""
    procs = [("populator", populate, True)]

    def mk(choices):
        return run_exec(world, procs, choices)

    def chk(x):
        listing = check_common(rec, world, x, "H2", versions, x.procs[0].state == "done")
        # sequential continuation in the same directory, without the scheduler
        world.hio._load_schema_version.cache_clear()
        world.reads = []
        results = []
        for step, fn in enumerate((make_loader(versions[0]), populate, make_loader(versions[-1]))):
            try:
                results.append(fn())
            except BaseException as e:
                results.append(("raised", type(e).__name__, repr(e)[:160]))
        where = {"harness": "H2", "choices": x.taken, "crashed_at": [(k, os.path.basename(str(d))) for pid, v, k, d in x.log
                                                                      if v == "crash"], "after": repr(results)[:400]}
        for r in results:
            if r[0] == "load" and r[2] != "ok":
                rec.violation(f"C19:H2:load-after-interrupted-population-failed:{r[2]}", **where)
            if r[0] == "raised":
                rec.violation(f"C19:H2:continuation-raised:{r[1]}", **where)
        for name, h in world.reads:
            if h != "missing" and name in world.bytes and h != sha(world.bytes[name]):
                rec.violation("C19:H2:loader-read-torn-file", file=name, **where)
        final = world.cache_listing()
        for name, data in world.bytes.items():
            if final.get(name) != data:
                rec.violation("C19:H2:torn-or-missing-file-after-repopulation", file=name,
                              have=None if name not in final else len(final[name]), want=len(data), **where)
                break
        rec.outcome("H2:" + ("crashed" if x.procs[0].state == "dead" else "complete"))
    return sched.explore(mk, 1, chk, shard_filter(shard, nshards))


def h4(rec, world, shard, nshards, bound, kinds=(False, False)):
    """Two holders of the cache lock on one directory: never overlap; a time-out gives the documented error.  kinds: whether
    holder A / B records the refresh time (a refresher beside a holder that only copies installed files)."""
    state = {"inside": 0, "overlap": False, "events": []}

    def holder(tag):
        def body():
            from hed.schema.hed_cache_lock import CacheLock, CacheException
            try:
                with CacheLock(WORLD.cache, write_time=kinds[0 if tag == "A" else 1]):
                    state["inside"] += 1
                    if state["inside"] > 1:
                        state["overlap"] = True
                    pt("in-critical-section", tag)
                    pt("in-critical-section-2", tag)
                    state["inside"] -= 1
                return ("held", tag)
            except CacheException:
                return ("gave-up", tag)
        return body
    procs = [("holder-A", holder("A"), False), ("holder-B", holder("B"), False)]

    def mk(choices):
        state.update(inside=0, overlap=False)
        return run_exec(world, procs, choices, crash=False)

    def chk(x):
        rec.n("evaluations")
        rec.n("transitions", len(x.points))
        if x.deviations:
            rec.n("distinct_nontrivial")
        where = {"harness": "H4", "choices": x.taken, "schedule": [(pid, v, k) for pid, v, k, d in x.log]}
        if state["overlap"]:
            rec.violation("C19:H4:two-lock-holders-overlap", **where)
        timeouts = [pid for pid, v, k, d in x.log if v == "timeout"]
        for p in x.procs:
            if p.error is not None:
                rec.violation(f"C19:H4:holder-raised:{type(p.error).__name__}", error=repr(p.error)[:200], **where)
            elif p.pid in timeouts and p.result[0] != "gave-up":
                rec.violation("C19:H4:time-out-did-not-give-up-with-cache-error", result=p.result, **where)
            elif p.pid not in timeouts and p.result[0] != "held":
                rec.violation("C19:H4:holder-without-contention-gave-up", result=p.result, **where)
        rec.outcome("H4:" + ",".join(sorted(p.result[0] for p in x.procs if p.result)))
        rec.state(("H4", tuple(x.taken)))
    return sched.explore(mk, bound, chk, shard_filter(shard, nshards), on_divergence=diverged(rec))


def h8(rec, world, shard, nshards, bound, versions, initial_names=()):
    """A process that keeps the cache lock for a while (a refresh over a slow network does) and a loader whose own lock
    attempts may time out: the load of a bundled version succeeds all the same."""
    def slow_holder():
        from hed.schema.hed_cache_lock import CacheLock, CacheException
        try:
            with CacheLock(WORLD.cache, write_time=False):
                pt("in-critical-section", "slow-1")
                pt("in-critical-section", "slow-2")
            return ("held", "slow")
        except CacheException:
            return ("gave-up", "slow")
    procs = [("slow-holder", slow_holder, False), ("loader", make_loader(versions[0]), False)]
    initial = {n: world.bytes[n] for n in initial_names}

    def mk(choices):
        return run_exec(world, procs, choices, initial=initial, crash=False)

    def chk(x):
        check_common(rec, world, x, "H8", versions, False)
    return sched.explore(mk, bound, chk, shard_filter(shard, nshards), on_divergence=diverged(rec))


def h4c(rec, world, shard, nshards, bound):
    """Three holders of the cache lock on one directory (a holder, a waiter that arrived meanwhile, a late comer): never two
    inside at once."""
    state = {"inside": 0, "overlap": False}

    def holder(tag):
        def body():
            from hed.schema.hed_cache_lock import CacheLock, CacheException
            try:
                with CacheLock(WORLD.cache, write_time=False):
                    state["inside"] += 1
                    if state["inside"] > 1:
                        state["overlap"] = True
                    pt("in-critical-section", tag)
                    state["inside"] -= 1
                return ("held", tag)
            except CacheException:
                return ("gave-up", tag)
        return body
    procs = [("holder-A", holder("A"), False), ("holder-B", holder("B"), False), ("holder-C", holder("C"), False)]

    def mk(choices):
        state.update(inside=0, overlap=False)
        return run_exec(world, procs, choices, crash=False)

    def chk(x):
        rec.n("evaluations")
        rec.n("transitions", len(x.points))
        if x.deviations:
            rec.n("distinct_nontrivial")
        where = {"harness": "H4c", "choices": x.taken, "schedule": [(pid, v, k) for pid, v, k, d in x.log]}
        if state["overlap"]:
            rec.violation("C19:H4c:two-lock-holders-overlap", **where)
        timeouts = [pid for pid, v, k, d in x.log if v == "timeout"]
        for p in x.procs:
            if p.error is not None:
                rec.violation(f"C19:H4c:holder-raised:{type(p.error).__name__}", error=repr(p.error)[:200], **where)
            elif p.pid in timeouts and p.result[0] != "gave-up":
                rec.violation("C19:H4c:time-out-did-not-give-up-with-cache-error", result=p.result, **where)
            elif p.pid not in timeouts and p.result[0] != "held":
                rec.violation("C19:H4c:holder-without-contention-gave-up", result=p.result, **where)
        rec.outcome("H4c:" + ",".join(sorted(p.result[0] for p in x.procs if p.result)))
        rec.state(("H4c", tuple(x.taken)))
    return sched.explore(mk, bound, chk, shard_filter(shard, nshards), on_divergence=diverged(rec))


def h5c(rec, world, shard, nshards, bound):
    """Two refreshers (holders that record the time) on one directory at the same clock time: whatever the interleaving,
    at most one of them runs its refresh - the other is skipped by the interval or gives up on the lock."""
    state = {"ran": 0}

    def refresher(tag):
        def body():
            from hed.schema.hed_cache_lock import CacheLock, CacheException
            try:
                with CacheLock(WORLD.cache):
                    state["ran"] += 1
                    pt("refreshing", tag)
                return ("refreshed", tag)
            except CacheException:
                return ("skipped", tag)
        return body
    procs = [("refresher-A", refresher("A"), False), ("refresher-B", refresher("B"), False)]

    def mk(choices):
        state.update(ran=0)
        return run_exec(world, procs, choices, crash=False, clock={"default": 1.8e9})

    def chk(x):
        rec.n("evaluations")
        rec.n("transitions", len(x.points))
        if x.deviations:
            rec.n("distinct_nontrivial")
        where = {"harness": "H5c", "choices": x.taken, "schedule": [(pid, v, k) for pid, v, k, d in x.log]}
        for p in x.procs:
            if p.error is not None:
                rec.violation(f"C19:H5c:refresher-raised:{type(p.error).__name__}", error=repr(p.error)[:200], **where)
        if state["ran"] > 1:
            rec.violation("C19:H5c:two-refreshes-within-one-interval", **where)
        rec.outcome("H5c:" + ",".join(sorted(p.result[0] for p in x.procs if p.result)))
        rec.state(("H5c", tuple(x.taken)))
    return sched.explore(mk, bound, chk, shard_filter(shard, nshards), on_divergence=diverged(rec))


def h10(rec, world, shard, nshards, bound):
    """Library data (hedId ranges) of the bundled libraries: a first reader interrupted at every point (H10), or two
    readers interleaved (H10c), then a reader in a fresh process without network: it gets the bundled ranges, and no
    partially written json file stays under the final name."""
    src = os.path.join(core.SCHEMA_DATA, "library_data", "library_data.json")
    os.makedirs(os.path.join(world.installed, "library_data"), exist_ok=True)
    shutil.copy(src, os.path.join(world.installed, "library_data", "library_data.json"))
    with open(src, "rb") as f:
        raw = f.read()
    bundled = json.loads(raw)
    names = [n for n in ("score", "", "lang") if n in bundled][:2]

    def reader(name):
        def body():
            return ("library-data", name, WORLD.hc.get_library_data(name))
        return body

    def judge(x, harness, crashed):
        rec.n("evaluations")
        rec.n("transitions", len(x.points))
        if x.deviations:
            rec.n("distinct_nontrivial")
        where = {"harness": harness, "choices": x.taken, "deviations": x.deviations,
                 "schedule": [(pid, v, k, os.path.basename(str(d))) for pid, v, k, d in x.log][-30:]}
        for p in x.procs:
            if p.error is not None:
                rec.violation(f"C19:{harness}:process-raised:{type(p.error).__name__}", process=p.name, error=repr(p.error)[:200], **where)
            if p.result and p.result[2] != bundled[p.result[1]] and not x.deviations:
                rec.violation(f"C19:{harness}:bundled-library-data-not-returned", process=p.name, got=repr(p.result[2])[:100], **where)
        # a later process (nothing memoised), the network unreachable
        for name in names:
            world.hc.get_library_data.cache_clear()
            try:
                got = world.hc.get_library_data(name)
            except BaseException as e:  # noqa
                rec.violation(f"C19:{harness}:later-reader-raised:{type(e).__name__}", library=name, error=repr(e)[:200], **where)
                continue
            if got != bundled[name]:
                rec.violation(f"C19:{harness}:later-reader-gets-no-bundled-library-data", library=name, got=repr(got)[:100],
                              folder=sorted(os.listdir(os.path.join(world.cache, "library_data")))
                              if os.path.isdir(os.path.join(world.cache, "library_data")) else None, **where)
        final = os.path.join(world.cache, "library_data", "library_data.json")
        if os.path.exists(final):
            with open(final, "rb") as f:
                if f.read() != raw:
                    rec.violation(f"C19:{harness}:torn-file-kept-under-final-name", files=["library_data.json"], **where)
        rec.outcome(f"{harness}:" + ("interrupted" if crashed else "complete"))
        rec.state((harness, tuple(x.taken)))

    def mk1(choices):
        return run_exec(world, [("reader", reader(names[0]), True)], choices)

    st = sched.explore(mk1, 1, lambda x: judge(x, "H10", x.procs[0].state == "dead"), shard_filter(shard, nshards),
                       on_divergence=diverged(rec))

    def mk2(choices):
        return run_exec(world, [("reader-1", reader(names[0]), False), ("reader-2", reader(names[-1]), False)], choices, crash=False)

    st2 = sched.explore(mk2, bound, lambda x: judge(x, "H10c", False), shard_filter(shard, nshards), on_divergence=diverged(rec))
    return {"executions": st["executions"] + st2["executions"]}


def h11(rec, world, lib_a="testlib_2.0.0", lib_b="score_1.1.0"):
    """Two bundled libraries merged in one request (`a,b`), from every partly filled cache directory an interrupted
    population leaves (each of the three files absent / complete, lock file left or not): the schema is the one a complete
    cache gives - both libraries in it - and afterwards the directory holds complete files only (sequential)."""
    import itertools
    added = []
    for v in (lib_a, lib_b, "8.2.0"):
        f = version_file(v)
        if f not in world.bytes:
            with open(os.path.join(core.SCHEMA_DATA, f), "rb") as fh:
                world.bytes[f] = fh.read()
            with open(os.path.join(world.installed, f), "wb") as fh:
                fh.write(world.bytes[f])
            added.append(f)
    files = [version_file(lib_a), version_file(lib_b), version_file("8.2.0")]

    def signature(request, initial):
        world.reset(initial)
        world.parse_memo.clear()          # a merge writes into the first library's schema object: never reuse a parsed one
        try:
            sch = world.hio.load_schema_version(request)
            return ("ok", sch.library, len(sch.tags.all_names), sha(repr(sorted(sch.tags.all_names)).encode()))
        except BaseException as e:  # noqa
            return ("raised", type(e).__name__, str(getattr(e, "code", "")), repr(e)[:120])
    try:
        for request in (f"{lib_a},{lib_b}", f"{lib_b},{lib_a}", f"xl:{lib_a},{lib_b}"):
            want = signature(request, {f: world.bytes[f] for f in files})
            if want[0] != "ok":
                rec.violation("C19:H11:merged-load-from-a-complete-cache-failed", request=request, got=want)
                continue
            for present in itertools.product((False, True), repeat=3):
                if all(present):
                    continue
                for lock_file in (False, True):
                    initial = {f: world.bytes[f] for f, p in zip(files, present) if p}
                    if lock_file:
                        initial["cache_lock.lock"] = b""
                        initial[files[1] + ".1000.tmp"] = world.bytes[files[1]][:1000]
                    rec.n("evaluations")
                    rec.n("transitions")
                    rec.n("distinct_nontrivial")
                    got = signature(request, initial)
                    rec.state(("H11", request, present, lock_file))
                    rec.outcome("H11:" + got[0])
                    where = {"harness": "H11", "request": request, "files_present": dict(zip(files, present)),
                             "leftover_lock_and_tmp": lock_file}
                    if got != want:
                        rec.violation("C19:H11:merged-load-from-a-partly-filled-cache-differs", got=got, complete_cache=want, **where)
                    bad = torn_files(world.cache_listing(), world)
                    if bad:
                        rec.violation("C19:H11:torn-file-kept-under-final-name", files=bad, **where)
    finally:
        world.parse_memo.clear()
        for f in added:
            del world.bytes[f]
            os.remove(os.path.join(world.installed, f))


def h0(rec, world, versions):
    """Every leftover cache directory an earlier process can leave behind, followed by one load of each installed version
    (sequential): each installed file {absent, complete}, a stale temporary copy {absent, half}, lock file {absent, present},
    time stamp {absent, old, recent, unreadable}."""
    import itertools
    from hed.schema.hed_cache_lock import TIMESTAMP_FILENAME
    names = sorted(world.bytes)
    now = 1.9e9
    for present in itertools.product((False, True), repeat=len(names)):
        for tmp_left in (False, True):
            for lock_file in (False, True):
                for stamp in ("absent", "old", "recent", "unreadable"):
                    initial = {}
                    for n, p in zip(names, present):
                        if p:
                            initial[n] = world.bytes[n]
                    if tmp_left:
                        initial[names[0] + ".1000.tmp"] = world.bytes[names[0]][:1000]
                    if lock_file:
                        initial["cache_lock.lock"] = b""
                    if stamp == "old":
                        initial[TIMESTAMP_FILENAME] = str(now - 1e6).encode()
                    elif stamp == "recent":
                        initial[TIMESTAMP_FILENAME] = str(now - 5).encode()
                    elif stamp == "unreadable":
                        initial[TIMESTAMP_FILENAME] = b"17e"
                    for version in versions:
                        world.reset(initial)
                        world.clock["default"] = now
                        rec.n("evaluations")
                        rec.n("transitions")
                        r = make_loader(version)()
                        rec.state(("H0", present, tmp_left, lock_file, stamp))
                        rec.outcome("H0:" + r[2])
                        where = {"harness": "H0", "installed_files_present": dict(zip(names, present)),
                                 "stale_tmp": tmp_left, "lock_file": lock_file, "time_stamp": stamp, "load": version}
                        if r[2] != "ok":
                            rec.violation(f"C19:H0:load-failed:{r[2]}:time-stamp-{stamp}", detail=r[3], **where)
                        for name, h in world.reads:
                            if h != "missing" and name in world.bytes and h != sha(world.bytes[name]):
                                rec.violation("C19:H0:loader-read-torn-file", file=name, **where)
                        bad = torn_files(world.cache_listing(), world)
                        if bad:
                            rec.violation("C19:H0:torn-file-kept-under-final-name", files=bad, **where)


def h5(rec, world):
    """Refresh interval and unreadable time-stamp files (sequential)."""
    from hed.schema.hed_cache_lock import CacheLock, CacheException, CACHE_TIME_THRESHOLD, TIMESTAMP_FILENAME
    t0 = 1.7e9
    for delta in (0, 1, CACHE_TIME_THRESHOLD - 1, CACHE_TIME_THRESHOLD, CACHE_TIME_THRESHOLD + 1, 10 * CACHE_TIME_THRESHOLD):
        world.reset()
        world.clock["default"] = t0
        with CacheLock(world.cache):
            pass
        ts = os.path.join(world.cache, TIMESTAMP_FILENAME)
        rec.n("evaluations")
        if not os.path.exists(ts) or abs(float(open(ts).read()) - t0) > 1e-6:
            rec.violation("C19:H5:time-stamp-not-written", delta=delta)
            continue
        before = world.cache_listing()
        world.clock["default"] = t0 + delta
        entered = False
        try:
            with CacheLock(world.cache):
                entered = True
        except CacheException:
            pass
        except BaseException as e:
            rec.violation("C19:H5:refresh-raised:" + type(e).__name__, delta=delta, error=repr(e)[:200])
            continue
        want = delta >= CACHE_TIME_THRESHOLD
        rec.outcome(f"H5:entered={entered}")
        if entered != want:
            rec.violation("C19:H5:refresh-interval-not-respected", delta=delta, threshold=CACHE_TIME_THRESHOLD, entered=entered)
        if not entered and world.cache_listing() != before:
            rec.violation("C19:H5:skipped-refresh-wrote-something", delta=delta)
        # network refresh through the real entry point must be skipped as well
        world.server = {}
        r = world.hc.cache_xml_versions(cache_folder=world.cache)
        if not want and r != -1:
            rec.violation("C19:H5:cache_xml_versions-not-skipped-within-interval", delta=delta, result=r)
    # histories of refresh attempts on one directory: every sequence of up to four gaps from the menu; an attempt is
    # let in exactly when the interval has passed since the last attempt that was let in (model: one number)
    import itertools
    menu = (1, CACHE_TIME_THRESHOLD - 1, CACHE_TIME_THRESHOLD, 2 * CACHE_TIME_THRESHOLD)
    for length in (2, 3, 4):
        for gaps in itertools.product(menu, repeat=length):
            world.reset()
            now = t0
            world.clock["default"] = now
            with CacheLock(world.cache):
                pass
            last = now
            got, want_seq = [], []
            for gap in gaps:
                now += gap
                world.clock["default"] = now
                entered = False
                try:
                    with CacheLock(world.cache):
                        entered = True
                except CacheException:
                    pass
                except BaseException as e:
                    entered = "raised:" + type(e).__name__
                want = now - last >= CACHE_TIME_THRESHOLD
                if want:
                    last = now
                got.append(entered)
                want_seq.append(want)
                rec.n("transitions")
            rec.n("evaluations")
            rec.state(("H5-history", gaps))
            if got != want_seq:
                rec.violation("C19:H5:history:refresh-interval-not-respected", gaps=list(gaps), entered=got, model=want_seq)
            rec.outcome("H5:history:" + "".join("x" if g is True else "-" for g in got)[:2])
    # a refresh attempt that fails (server unreachable) is an attempt: the next one within the interval is skipped and
    # performs no request
    world.reset()
    world.clock["default"] = t0
    world.server = {}
    requests = []
    real_request = world.make_url_request

    def counting(url, *a, **kw):
        requests.append(url)
        return real_request(url, *a, **kw)
    world.hc.make_url_request = counting
    try:
        for attempt, want_requests in ((1, True), (2, False), (3, False)):
            n0 = len(requests)
            world.clock["default"] = t0 + (attempt - 1) * 10
            rec.n("evaluations")
            try:
                r = world.hc.cache_xml_versions(hed_base_urls="https://fake/none", hed_library_urls="https://fake/none2",
                                                cache_folder=world.cache)
            except BaseException as e:
                rec.violation("C19:H5:failed-refresh-raises:" + type(e).__name__, attempt=attempt, error=repr(e)[:200])
                break
            made = len(requests) > n0
            if made != want_requests:
                rec.violation("C19:H5:refresh-after-failed-attempt-not-skipped" if made else
                              "C19:H5:first-refresh-made-no-request", attempt=attempt, result=r, requests=requests[n0:])
            rec.outcome(f"H5:failed-refresh:{attempt}:{made}")
    finally:
        world.hc.make_url_request = real_request
    # the time stamp cannot be written (its name is taken by a directory): whatever the holder's exit does, the lock is free
    # again afterwards
    world.reset()
    os.makedirs(os.path.join(world.cache, TIMESTAMP_FILENAME))
    world.clock["default"] = t0
    rec.n("evaluations")
    try:
        with CacheLock(world.cache):
            pass
    except CacheException:
        pass
    except BaseException:
        pass            # the failed write may surface as an error of its own
    try:
        with CacheLock(world.cache, write_time=False):
            pass
        rec.outcome("H5:lock-free-after-failed-time-stamp-write")
    except CacheException as e:
        rec.violation("C19:H5:lock-kept-after-failed-time-stamp-write", error=repr(e)[:200])
    for content in ("", "17", "1.7e", "not a number", "\x00\x00", "1700000000.0\n"):
        world.reset()
        with open(os.path.join(world.cache, TIMESTAMP_FILENAME), "w") as f:
            f.write(content)
        world.clock["default"] = t0 + 10 * CACHE_TIME_THRESHOLD
        rec.n("evaluations")
        try:
            with CacheLock(world.cache):
                pass
            rec.outcome("H5:torn-stamp-ok")
        except CacheException:
            rec.outcome("H5:torn-stamp-cache-exception")
        except BaseException as e:
            rec.violation("C19:H5:unreadable-time-stamp-raises:" + type(e).__name__, content=content, error=repr(e)[:200])


def h6(rec, world, shard, nshards, bound, version):
    """Refresh from the (fake) network, crashed at every point, while a loader reads."""
    name = version_file(version)
    new = world.bytes[name]
    old = new + b"\n<!-- older cached copy -->\n"
    base = "https://fake/standard_schema"
    lib = "https://fake/library_schemas"
    gitsha = hashlib.sha1(f"blob {len(new)}\0".encode() + new).hexdigest()
    world.server = {("listing", base + "/hedxml"): [{"type": "file", "name": name, "sha": gitsha,
                                                      "download_url": "https://fake/dl/" + name}],
                    ("listing", lib): [],
                    ("file", "https://fake/dl/" + name): new}
    world.extra_ok = {name: [old]}

    def refresher():
        return ("refresh", WORLD.hc.cache_xml_versions(hed_base_urls=base, hed_library_urls=lib, cache_folder=WORLD.cache))
    procs = [("refresher", refresher, True), ("loader", make_loader(version), False)]

    def mk(choices):
        return run_exec(world, procs, choices, initial={name: old}, clock={"default": 1.8e9})

    def chk(x):
        listing = check_common(rec, world, x, "H6", [version], False)
        # the refresher downloads and installs only while it holds the cache lock
        held = False
        for pid, variant, kind, detail in x.log:
            if pid != 0:
                continue
            if kind == "lock-acquire" and variant == "go":
                held = True
            elif kind == "lock-release":
                held = False
            elif kind == "url-download" and not held:
                rec.violation("C19:H6:download-outside-the-cache-lock", choices=x.taken,
                              schedule=[(p, v, k) for p, v, k, d in x.log][-30:])
                break
        if name not in listing:
            rec.violation("C19:H6:cached-schema-disappeared", choices=x.taken)
        rec.outcome("H6:final=" + ("new" if listing.get(name) == new else "old" if listing.get(name) == old else "other"))
    try:
        return sched.explore(mk, bound, chk, shard_filter(shard, nshards), on_divergence=diverged(rec))
    finally:
        world.server = {}
        world.extra_ok = {}


def h9(rec, world, version):
    """Histories of refreshes in one process: between two refreshes (each more than the refresh interval after the last) the
    cached file is left alone, torn, replaced by an older copy or deleted; after every refresh the cache holds the served
    content and the version loads."""
    from hed.schema.hed_cache_lock import CACHE_TIME_THRESHOLD
    name = version_file(version)
    new = world.bytes[name]
    old = new + b"\n<!-- older cached copy -->\n"
    contents = {"served": new, "older": old, "torn": new[:len(new) // 2], "missing": None}
    base = "https://fake/standard_schema"
    lib = "https://fake/library_schemas"
    gitsha = hashlib.sha1(f"blob {len(new)}\0".encode() + new).hexdigest()
    server = {("listing", base + "/hedxml"): [{"type": "file", "name": name, "sha": gitsha,
                                               "download_url": "https://fake/dl/" + name}],
              ("listing", lib): [],
              ("file", "https://fake/dl/" + name): new}
    try:
        for start in contents:
            for changes in itertools.chain(itertools.product(contents, repeat=1), itertools.product(contents, repeat=2)):
                world.reset({name: contents[start]} if contents[start] is not None else {})
                world.server = dict(server)
                world.extra_ok = {name: [old]}
                now = 1.8e9
                rec.n("evaluations")
                rec.n("distinct_nontrivial")
                rec.state(("H9", start, changes))
                where = {"harness": "H9", "cached_file_at_start": start, "changes_between_refreshes": list(changes)}
                for step, change in enumerate((None,) + changes):
                    if change is not None:
                        path = os.path.join(world.cache, name)
                        if contents[change] is None:
                            if os.path.exists(path):
                                os.remove(path)
                        else:
                            with open(path, "wb") as f:
                                f.write(contents[change])
                    now += 2 * CACHE_TIME_THRESHOLD
                    world.clock["default"] = now
                    rec.n("transitions")
                    try:
                        r = world.hc.cache_xml_versions(hed_base_urls=base, hed_library_urls=lib, cache_folder=world.cache)
                    except BaseException as e:
                        rec.violation("C19:H9:refresh-raises:" + type(e).__name__, step=step, error=repr(e)[:200], **where)
                        break
                    have = world.cache_listing().get(name)
                    if r == -1 or have != new:
                        rec.violation("C19:H9:refresh-leaves-a-file-that-is-not-the-served-content", step=step, result=r,
                                      file=("missing" if have is None else "older" if have == old else
                                            "torn" if have == contents["torn"] else "other"), **where)
                        break
                    world.hio._load_schema_version.cache_clear()
                    res = make_loader(version)()
                    if res[2] != "ok":
                        rec.violation("C19:H9:load-after-refresh-failed:" + res[2], step=step, detail=res[3], **where)
                        break
                rec.outcome("H9:history")
    finally:
        world.server = {}
        world.extra_ok = {}


class CutResponse:
    """What urlopen gives back when the connection is lost after `cut` bytes of a body announced with Content-Length:
    read() raises IncompleteRead, read(n) just comes back short and then empty (http.client semantics)."""

    def __init__(self, data, cut):
        self.data, self.cut, self.pos = data, cut, 0
        self.headers = {"Content-Length": str(len(data))}

    def read(self, n=-1):
        import http.client
        limit = len(self.data) if self.cut is None else self.cut
        if n is None or n < 0:
            chunk = self.data[self.pos:limit]
            self.pos = limit
            if self.cut is not None:
                raise http.client.IncompleteRead(chunk, len(self.data) - limit)
            return chunk
        chunk = self.data[self.pos:min(limit, self.pos + n)]
        self.pos += len(chunk)
        return chunk

    def getheader(self, name, default=None):
        return self.headers.get(name, default)

    def close(self):
        pass

    def __enter__(self):
        return self

    def __exit__(self, *a):
        return False


def h7(rec, world, version):
    """Network refresh whose download is cut after k bytes, for every class of k (environment-answer deviation), run on the
    real url_to_file: the cache keeps a complete file and the version still loads."""
    import hed.schema.schema_io.schema_util as su
    name = version_file(version)
    new = world.bytes[name]
    old = new + b"\n<!-- older cached copy -->\n"
    base = "https://fake/standard_schema"
    lib = "https://fake/library_schemas"
    gitsha = hashlib.sha1(f"blob {len(new)}\0".encode() + new).hexdigest()
    world.server = {("listing", base + "/hedxml"): [{"type": "file", "name": name, "sha": gitsha,
                                                      "download_url": "https://fake/dl/" + name}],
                    ("listing", lib): [],
                    ("file", "https://fake/dl/" + name): new}
    world.extra_ok = {name: [old]}
    fake_url_to_file, real_request = world.hc.url_to_file, su.make_url_request
    try:
        world.hc.url_to_file = su.url_to_file
        for cut in (None, 0, 1, len(new) // 2, len(new) - 1):
            su.make_url_request = lambda url, *a, cut=cut, **kw: CutResponse(new, cut)
            world.reset(initial={name: old})
            world.clock["default"] = 1.8e9
            rec.n("evaluations")
            rec.n("transitions", 2)
            if cut is not None:
                rec.n("distinct_nontrivial")
            try:
                result = world.hc.cache_xml_versions(hed_base_urls=base, hed_library_urls=lib, cache_folder=world.cache)
            except BaseException as e:
                result = "raised:" + type(e).__name__
            listing = world.cache_listing()
            where = {"harness": "H7", "download_cut_after_bytes": cut, "of": len(new), "refresh_result": str(result)}
            bad = torn_files(listing, world)
            if bad:
                rec.violation("C19:H7:torn-file-kept-under-final-name", files=bad, **where)
            r = make_loader(version)()
            if r[2] != "ok":
                rec.violation(f"C19:H7:load-failed:{r[2]}", detail=r[3], **where)
            if cut is None and listing.get(name) != new:
                rec.violation("C19:H7:complete-download-not-installed", **where)
            rec.outcome(f"H7:cut={'none' if cut is None else 'some'}:{str(result)[:24]}")
            rec.state(("H7", cut is None, tuple(sorted((k, len(v)) for k, v in listing.items()))))
    finally:
        world.hc.url_to_file = fake_url_to_file
        su.make_url_request = real_request
        world.server = {}
        world.extra_ok = {}


def worker(rec, shard, nshards, scratch, files, bounds, thorough, seed):
    global WORLD
    WORLD = World(os.path.join(scratch, f"w{shard}"), files)
    WORLD.extra_ok = {}
    versions = [f[3:-4] if not f.startswith("HED_") else f[4:-4] for f in files]
    stats = {}
    # determinism gate: the first schedule replayed twice gives identical observation logs
    a = run_exec(WORLD, [("populator-1", populate, False), ("loader", make_loader(versions[0]), False)], [], crash=False)
    try:
        b = run_exec(WORLD, [("populator-1", populate, False), ("loader", make_loader(versions[0]), False)], list(a.taken),
                     crash=False)
    except sched.Divergence as e:
        b = None
        rec.violation("C19:behaviour-depends-on-earlier-executions-in-the-process", gate="the same schedule run twice",
                      detail=str(e))
    if b is not None and (a.log != b.log or a.taken != b.taken):
        diff = next(((i, x, y) for i, (x, y) in enumerate(zip(a.log, b.log)) if x != y), (len(a.log), len(b.log)))
        # the harness owns scheduling, clock, network and file system and rebuilds the world before each run: what is left is
        # state the library keeps inside the process
        rec.violation("C19:behaviour-depends-on-earlier-executions-in-the-process", gate="the same schedule run twice",
                      first_difference=repr(diff)[:300])
    for name, fn in (("H1", lambda: h1(rec, WORLD, shard, nshards, bounds["H1"], versions)),
                     ("H2", lambda: h2(rec, WORLD, shard, nshards, versions)),
                     ("H3", lambda: h3(rec, WORLD, shard, nshards, bounds["H3"], versions)),
                     ("H4", lambda: h4(rec, WORLD, shard, nshards, bounds["H4"])),
                     ("H4m", lambda: h4(rec, WORLD, shard, nshards, bounds["H4"], kinds=(True, False))),
                     ("H4c", lambda: h4c(rec, WORLD, shard, nshards, bounds["H4c"])),
                     ("H5c", lambda: h5c(rec, WORLD, shard, nshards, bounds["H4"])),
                     ("H8", lambda: h8(rec, WORLD, shard, nshards, bounds["H8"], versions)),
                     ("H8b", lambda: h8(rec, WORLD, shard, nshards, bounds["H8"], versions, (version_file(versions[1]),))),
                     # the same with a bundled library schema as the version loaded
                     ("H8l", lambda: h8(rec, WORLD, shard, nshards, bounds["H8"], versions[::-1])),
                     ("H6", lambda: h6(rec, WORLD, shard, nshards, bounds["H6"], versions[0])),
                     ("H10", lambda: h10(rec, WORLD, shard, nshards, bounds["H4c"]))):
        st = fn()
        rec.n("executions_" + name, st["executions"])
    if shard == 0:
        h5(rec, WORLD)
    if shard == 1 % nshards:
        h0(rec, WORLD, versions)
    if shard == 2 % nshards:
        h7(rec, WORLD, versions[0])
    if shard == 3 % nshards:
        h9(rec, WORLD, versions[0])
    if shard == 4 % nshards:
        h11(rec, WORLD)
    shutil.rmtree(WORLD.root, ignore_errors=True)


def run(ctx):
    files = ["HED8.3.0.xml", "HED8.2.0.xml", "HED_testlib_2.0.0.xml"] if not ctx.thorough else ["HED8.3.0.xml", "HED8.2.0.xml",
                                                                      "HED_score_1.1.0.xml", "HED_testlib_2.0.0.xml"]
    bounds = ({"H1": 1, "H3": 2, "H4": 2, "H4c": 2, "H6": 1, "H8": 3} if not ctx.thorough else
              {"H1": 2, "H3": 2, "H4": 3, "H4c": 3, "H6": 2, "H8": 4})
    scratch = ctx.subdir("c19")
    ctx.rec.notes["bounds"] = {"installed_files": files, "deviation_bounds": bounds,
                               "H2": "crash at every point of the populator (bound 1) + sequential continuation"}
    ctx.parallel(worker, scratch, files, bounds, ctx.thorough, ctx.seed)
    ctx.rec.counts["states"] = len(ctx.rec.states)
    ctx.rec.sample({"harness": "H1", "processes": ["populator-1", "populator-2", "loader 8.3.0"],
                    "scheduling_points": "listdir, exists, isdir, makedirs, copy create/half/rest, replace, remove, "
                                         "open, write, close, lock acquire/release, time, url request/download"})


def replay(ctx, case):
    global WORLD
    files = ["HED8.3.0.xml", "HED8.2.0.xml"]
    WORLD = World(os.path.join(ctx.subdir("c19r"), "w"), files)
    WORLD.extra_ok = {}
    rec = core.Rec()
    versions = ["8.3.0", "8.2.0"]
    h = case.get("harness")
    if h == "H1":
        procs = [("populator-1", populate, False), ("populator-2", populate, False), ("loader", make_loader("8.3.0"), False)]
        x = run_exec(WORLD, procs, case["choices"], crash=False)
        check_common(rec, WORLD, x, "H1", versions, False)
    return [(fp, d) for fp, lst in rec.viol.items() for d in lst[:1]]
