"""C05 - schemas survive saving and reloading in every format.

E1: every bundled compliant schema x {xml, mediawiki, tsv} x {merged, unmerged when partnered}.
E2: breadth-first search over edit histories applied to the XML *source tree* (the ground truth the harness controls): add /
    remove nodes under each structural class of parent, add / change / remove attributes (incl. multi-valued ones), add a
    '#' child with classes, add units / unit classes / value classes / modifiers, set descriptions from a menu spanning the
    allowed text class.  Depth 1 on full-size bundled schemas, depth 2-3 on pruned bases.
Oracle per state: every reloaded schema == the loaded original (library equality AND an own canonical dump); the three
reloads agree; an independent xml.etree reading of the saved XML == the same reading of the edited source.
"""
import copy
import itertools
import os
import shutil
import xml.etree.ElementTree as ET

from mc import core, schema_model
from mc.schema_model import as_list

ID = "C05"
LEVEL = "model_checking"
RULE = ("bundled: every compliant bundled schema x 3 formats x merged / unmerged; edits: the menu below applied at every "
        "structural class of position; histories: all single edits on full-size bases, all sequences of <= d edits on two "
        "pruned bases (a cut of 8.3.0 and a cut of testlib_3.0.0 partnered with 8.2.0).  state = canonical dump of the "
        "loaded schema; transition = one save + reload in one format and mode; non-trivial = edited schema")
ASSUMPTIONS = [
    "descriptions are drawn from texts without leading / trailing blanks (the formats trim them; observation, not judged)",
    "multi-valued attributes are compared as sets of comma-separated values",
    "the stand-alone legacy libraries score_1.0.0 and testlib_1.0.2 are round-tripped through xml and mediawiki only",
]

LEGACY = ("HED_score_1.0.0.xml", "HED_testlib_1.0.2.xml")
DESCRIPTIONS = [
    "Plain description.",
    "Has = equals and a=b pair",
    "Quotes 'single' and \"double\"",
    "Non-ASCII: café ångström 中",
    "(parenthesised) text; with: punctuation? yes! 100% *stars* @home $5 +1 -2 /slash",
    "12345",
    "x",
    "Two  inner  blanks",
    "Ends with dash -",
    "Literal <nowiki>markup</nowiki> inside",
    "\"Quoted start\" and then text",
    "Tab-free, comma, semi; colon: done",
    "Unicode line\u2028separator, paragraph\u2029separator and next\u0085line inside",
    "Children may extend here as needed.",
    "Mentions the entity &#8203; and a bare & with #hash",
    "Windows path C:\\new_data\\table, LaTeX \\nu and \\t, ends with backslash \\",
]


# ---- canonical dump through the library objects (independent of HedSchema.__eq__) ------------------------------------

def dump(schema):
    out = {}
    out["header"] = tuple(sorted((k, str(v)) for k, v in schema.get_save_header_attributes().items()))
    out["prologue"] = (schema.prologue or "").strip()
    out["epilogue"] = (schema.epilogue or "").strip()
    for key, section in schema._sections.items():
        entries = {}
        for name, entry in section.all_names.items():
            attrs = {}
            for a, v in entry.attributes.items():
                attrs[a] = tuple(sorted(str(v).split(","))) if isinstance(v, str) else v
            members = tuple(sorted(getattr(entry, "units", {}) or ())) if hasattr(entry, "units") else ()
            entries[name] = (tuple(sorted(attrs.items(), key=repr)), (entry.description or "").strip(), members)
        out[str(key)] = entries
    return out


def dump_diff(a, b):
    for k in a:
        if a[k] != b.get(k):
            if isinstance(a[k], dict):
                for n in set(a[k]) | set(b.get(k, {})):
                    if a[k].get(n) != b.get(k, {}).get(n):
                        return f"{k}:{n}: {a[k].get(n)!r} vs {b.get(k, {}).get(n)!r}"[:400]
            return f"{k}: {a[k]!r} vs {b.get(k)!r}"[:400]
    return None


# ---- independent XML comparison ---------------------------------------------------------------------------------------------

STRICT_VALUE_LISTS = True      # one <value> element per value: 'A,B' in one element is not the list [A, B]


def norm_attrs(attrs, drop=()):
    out = {}
    for k, v in attrs.items():
        if k in drop:
            continue
        if v is True:
            out[k] = True
        elif STRICT_VALUE_LISTS:
            out[k] = tuple(sorted(str(x) for x in as_list(v)))
        else:
            vals = []
            for x in as_list(v):
                vals += [y for y in str(x).split(",")]
            out[k] = tuple(sorted(vals))
    return out


def model_view(m, library_only=None):
    """Plain dict view of an independent XML model; library_only = library name -> keep only its entries, strip inLibrary."""
    view = {"tags": {}, "unit_classes": {}, "units": {}, "modifiers": {}, "value_classes": {}}
    drop = ("inLibrary",) if library_only else ()

    def keep(attrs):
        return (not library_only) or ("inLibrary" in attrs)
    for t in m.tags:
        if keep(t.attrs):
            key = t.long if not library_only else t.name
            view["tags"][key] = (norm_attrs(t.attrs, drop), (t.desc or "").strip(),
                                 None if t.value_child is None else
                                 (norm_attrs(t.value_child.attrs, drop), (t.value_child.desc or "").strip()))
    for n, uc in m.unit_classes.items():
        if keep(uc.attrs):
            view["unit_classes"][n] = (norm_attrs(uc.attrs, drop), (uc.desc or "").strip())
        for un, u in uc.units.items():
            if keep(u.attrs):
                view["units"][(n, un)] = (norm_attrs(u.attrs, drop), (u.desc or "").strip())
    for n, u in m.modifiers.items():
        if keep(u.attrs):
            view["modifiers"][n] = (norm_attrs(u.attrs, drop), (u.desc or "").strip())
    for n, u in m.value_classes.items():
        if keep(u.attrs):
            view["value_classes"][n] = (norm_attrs(u.attrs, drop), (u.desc or "").strip())
    return view


def view_diff(a, b):
    for sec in a:
        for k in set(a[sec]) | set(b[sec]):
            if a[sec].get(k) != b[sec].get(k):
                return f"{sec}:{k}: source {a[sec].get(k)!r} vs saved {b[sec].get(k)!r}"[:400]
    return None


# ---- round trip of one schema state ----------------------------------------------------------------------------------------------

def round_trip(rec, label, xml_text, scratch, formats=("xml", "mediawiki", "tsv"), edited=False, kind="bundled"):
    from hed.schema import from_string, load_schema
    where = {"state": label}
    nowiki = "&lt;nowiki&gt;" in xml_text or "<nowiki>" in xml_text
    try:
        S = from_string(xml_text, ".xml")
    except Exception as e:
        rec.violation(f"C05:{kind}:source-does-not-load:{type(e).__name__}", error=repr(e)[:300], **where)
        return None
    dS = dump(S)
    rec.state(repr(sorted((k, len(v)) for k, v in dS.items() if isinstance(v, dict))) + label)
    src_model = schema_model.load(text=xml_text)
    modes = [True] + ([False] if S.with_standard else [])
    reloaded = {}
    for merged in modes:
        # the TSV format also exists without files: the dict of data frames handed straight back to the loader
        for fmt in (tuple(formats) + (("dataframes",) if "tsv" in formats else ())):
            rec.n("evaluations")
            rec.n("transitions")
            if edited:
                rec.n("distinct_nontrivial")
            tag = f"{fmt}:{'merged' if merged else 'unmerged'}"
            try:
                if fmt == "xml":
                    text = S.get_as_xml_string(save_merged=merged)
                    R = from_string(text, ".xml")
                    saved_model = schema_model.load(text=text)
                    lib = None if merged or not S.with_standard else S.library
                    d = view_diff(model_view(src_model, lib), model_view(saved_model, None if not lib else None) if not lib
                                  else unmerged_view(saved_model))
                    if d:
                        rec.violation(f"C05:{kind}:saved-xml-differs-from-source:{'merged' if merged else 'unmerged'}:{cls_of(d)}",
                                      detail=d, **where)
                elif fmt == "mediawiki":
                    text = S.get_as_mediawiki_string(save_merged=merged)
                    R = from_string(text, ".mediawiki")
                elif fmt == "dataframes":
                    from hed.schema import from_dataframes
                    R = from_dataframes(S.get_as_dataframes(save_merged=merged))
                else:
                    d = os.path.join(scratch, "tsv")
                    shutil.rmtree(d, ignore_errors=True)
                    S.save_as_dataframes(d, save_merged=merged)
                    R = load_schema(d)
            except Exception as e:
                special = wiki_text_limit(xml_text) if fmt == "mediawiki" else None
                if special:
                    rec.violation(special, error=repr(e)[:300], **where)
                else:
                    rec.violation(f"C05:{kind}:{tag}:raises:{type(e).__name__}", error=repr(e)[:300], **where)
                rec.outcome("raises")
                continue
            reloaded[tag] = R
            dR = dump(R)
            try:
                eq = (R == S)
            except Exception as e:
                rec.violation(f"C05:{kind}:{tag}:schema-comparison-raises:{type(e).__name__}", error=repr(e)[:300], **where)
                continue
            diff = dump_diff(dS, dR) or dump_diff(dR, dS)
            if (not eq or diff) and nowiki and fmt == "mediawiki":
                rec.violation("C05:description-with-literal-nowiki-markup:mediawiki-round-trip-loses-it",
                              detail=diff or "", **where)
                reloaded.pop(tag, None)
            elif not eq or diff:
                rec.violation(f"C05:{kind}:{tag}:reloaded-differs:{cls_of(diff) if diff else 'eq-only'}",
                              detail=diff or "HedSchema.__eq__ is False but the dumps agree", **where)
                rec.outcome("differs")
            else:
                rec.outcome("same")
    tags = list(reloaded)
    for a, b in itertools.combinations(tags, 2):
        if not (reloaded[a] == reloaded[b]):
            rec.violation(f"C05:{kind}:formats-disagree:{a}-vs-{b}", **where)
            break
    # second generation: a schema that was itself loaded from an unmerged save is saved and reloaded again
    if S.with_standard:
        second = [(f, m) for f in formats for m in (True, False)] if not edited else [("mediawiki", True), ("xml", True)]
        for tag1 in [t for t in tags if t.endswith("unmerged")]:
            R1 = reloaded[tag1]
            for fmt, merged in second:
                rec.n("evaluations")
                rec.n("transitions")
                rec.n("distinct_nontrivial")
                tag2 = f"{tag1}->{fmt}:{'merged' if merged else 'unmerged'}"
                try:
                    if fmt == "xml":
                        R2 = from_string(R1.get_as_xml_string(save_merged=merged), ".xml")
                    elif fmt == "mediawiki":
                        R2 = from_string(R1.get_as_mediawiki_string(save_merged=merged), ".mediawiki")
                    else:
                        d = os.path.join(scratch, "tsv2")
                        shutil.rmtree(d, ignore_errors=True)
                        R1.save_as_dataframes(d, save_merged=merged)
                        R2 = load_schema(d)
                except Exception as e:
                    special = wiki_text_limit(xml_text) if fmt == "mediawiki" else None
                    rec.violation(special or
                                  f"C05:{kind}:second-generation:{fmt}:{'merged' if merged else 'unmerged'}:raises:{type(e).__name__}",
                                  path=tag2, error=repr(e)[:300], **where)
                    continue
                diff = dump_diff(dS, dump(R2)) or dump_diff(dump(R2), dS)
                if (not same(R2, S) or diff) and nowiki and fmt == "mediawiki":
                    rec.violation("C05:description-with-literal-nowiki-markup:mediawiki-round-trip-loses-it",
                                  detail=diff or "", **where)
                elif not same(R2, S) or diff:
                    rec.violation(f"C05:{kind}:second-generation:{fmt}:{'merged' if merged else 'unmerged'}:reloaded-differs",
                                  path=tag2, detail=diff or "eq-only", **where)
        # a TSV save into a directory that already holds an earlier save of the same schema in the other mode
        if "tsv" in formats:
            for first_merged in (True, False):
                rec.n("evaluations")
                rec.n("transitions", 2)
                rec.n("distinct_nontrivial")
                d = os.path.join(scratch, "tsv3")
                shutil.rmtree(d, ignore_errors=True)
                try:
                    S.save_as_dataframes(d, save_merged=first_merged)
                    S.save_as_dataframes(d, save_merged=not first_merged)
                    R3 = load_schema(d)
                except Exception as e:
                    rec.violation(f"C05:{kind}:tsv-resave:raises:{type(e).__name__}", first_merged=first_merged,
                                  error=repr(e)[:300], **where)
                    continue
                diff = dump_diff(dS, dump(R3)) or dump_diff(dump(R3), dS)
                if not same(R3, S) or diff:
                    rec.violation(f"C05:{kind}:tsv-resave-into-same-directory:reloaded-differs", first_merged=first_merged,
                                  detail=diff or "eq-only", **where)
        # the directory given with a trailing separator
        if "tsv" in formats:
            rec.n("evaluations")
            d = os.path.join(scratch, "tsv4") + os.sep
            shutil.rmtree(d, ignore_errors=True)
            try:
                S.save_as_dataframes(d, save_merged=True)
                R4 = load_schema(d)
                diff = dump_diff(dS, dump(R4)) or dump_diff(dump(R4), dS)
                if not same(R4, S) or diff:
                    rec.violation(f"C05:{kind}:tsv-directory-with-trailing-separator:reloaded-differs", detail=diff or "eq-only",
                                  **where)
            except Exception as e:
                rec.violation(f"C05:{kind}:tsv-directory-with-trailing-separator:raises:{type(e).__name__}", error=repr(e)[:300],
                              **where)
    return S


def same(a, b):
    """Schema equality as the library defines it; a comparison that raises counts as 'not equal' (the first-generation
    comparison of the same schemas reports the exception itself)."""
    try:
        return a == b
    except Exception:
        return False


def wiki_text_limit(xml_text):
    """Inputs whose MediaWiki text cannot be read back because a line-oriented keyword of the format occurs in the data."""
    if "extend here" in xml_text:
        return "C05:description-containing-extend-here:mediawiki-text-cannot-be-reloaded"
    if TOP_LEVEL_SECTION_NAME in xml_text:
        return "C05:top-level-tag-named-like-a-section:mediawiki-text-cannot-be-reloaded"
    return None


TOP_LEVEL_SECTION_NAME = "A top-level tag whose name is a section keyword."


def unmerged_view(saved_model):
    """An unmerged save lists only the library's entries, without inLibrary."""
    view = {"tags": {}, "unit_classes": {}, "units": {}, "modifiers": {}, "value_classes": {}}
    for t in saved_model.tags:
        view["tags"][t.name] = (norm_attrs(t.attrs), (t.desc or "").strip(),
                                None if t.value_child is None else
                                (norm_attrs(t.value_child.attrs), (t.value_child.desc or "").strip()))
    for n, uc in saved_model.unit_classes.items():
        if uc.attrs or uc.desc:
            view["unit_classes"][n] = (norm_attrs(uc.attrs), (uc.desc or "").strip())
        for un, u in uc.units.items():
            view["units"][(n, un)] = (norm_attrs(u.attrs), (u.desc or "").strip())
    for n, u in saved_model.modifiers.items():
        view["modifiers"][n] = (norm_attrs(u.attrs), (u.desc or "").strip())
    for n, u in saved_model.value_classes.items():
        view["value_classes"][n] = (norm_attrs(u.attrs), (u.desc or "").strip())
    return view


def cls_of(diff):
    if not diff:
        return "none"
    if "nowiki" in diff:
        return "nowiki-markup-in-description"
    head = diff.split(":")[0]
    return head.replace("HedSectionKey.", "")


# ---- edits on the XML source tree ---------------------------------------------------------------------------------------------------

def set_attr(elem, name, values=None):
    for a in elem.findall("attribute"):
        if a.findtext("name") == name:
            elem.remove(a)
    a = ET.SubElement(elem, "attribute")
    ET.SubElement(a, "name").text = name
    for v in values or []:
        ET.SubElement(a, "value").text = v
    return a


def add_node(parent, name, desc=None, attrs=None, lib=None):
    n = ET.SubElement(parent, "node")
    ET.SubElement(n, "name").text = name
    if desc is not None:
        ET.SubElement(n, "description").text = desc
    for k, v in (attrs or {}).items():
        set_attr(n, k, v)
    if lib:
        set_attr(n, "inLibrary", [lib])
    return n


def all_nodes(root):
    out = []

    def walk(e, depth):
        for n in e.findall("node"):
            out.append((n, depth))
            walk(n, depth + 1)
    walk(root.find("schema"), 0)
    return out


def edits_menu(root):
    """List of (label, fn(root)) applicable to this source tree (addresses are found again inside fn)."""
    lib = root.get("library") if root.get("withStandard") else None
    nodes = [(n, d) for n, d in all_nodes(root) if n.findtext("name") != "#"]
    if lib:
        # a partnered library may only change its own entries: the standard part is re-read from the partner on reload
        nodes = [(n, d) for n, d in nodes if any(a.findtext("name") == "inLibrary" for a in n.findall("attribute"))]
    names = [n.findtext("name") for n, d in nodes]
    has_hash = {n.findtext("name") for n, d in nodes if any(c.findtext("name") == "#" for c in c_nodes(n))}
    leaf_names = [n.findtext("name") for n, d in nodes if not n.findall("node")]
    deep = next((n.findtext("name") for n, d in nodes if d >= 2), names[-1])
    ext = next((n.findtext("name") for n, d in nodes if any(a.findtext("name") == "extensionAllowed"
                                                            for a in n.findall("attribute"))), names[0])
    parent_classes = {"root": None, "top": names[0], "deep": deep, "extension-subtree": ext, "leaf": leaf_names[0]}
    with_hash = next((nm for nm in names if nm in has_hash), None)
    if with_hash:
        parent_classes["after-placeholder"] = with_hash       # the new node becomes a sibling listed after a '#' child
    if lib:
        del parent_classes["root"]      # a new top-level library node needs no standard parent; covered by add-rooted
    unit_classes = [d.findtext("name") for d in root.iter("unitClassDefinition")]
    value_classes = [d.findtext("name") for d in root.iter("valueClassDefinition")]
    menu = []

    def find(rt, name):
        for n, d in all_nodes(rt):
            if n.findtext("name") == name:
                return n
        return None

    for pc, pname in parent_classes.items():
        def add_leaf(rt, pname=pname, pc=pc):
            parent = rt.find("schema") if pname is None else find(rt, pname)
            nm = "Zq-new-" + pc
            attrs = {}
            if pname is None and lib:
                attrs = {"rooted": [names[0]]} if False else {}
            add_node(parent, nm, "Added under " + pc, attrs, lib)
        menu.append((f"add-leaf:{pc}", add_leaf))
    for i, desc in enumerate(DESCRIPTIONS):
        def add_desc(rt, desc=desc, i=i):
            parent = find(rt, names[0])
            add_node(parent, f"Zq-desc-{i}", desc, {}, lib)
        menu.append((f"add-node-with-description:{i}", add_desc))
    other = [x for x in leaf_names if x not in (names[0],)][:3]
    if len(other) >= 2:
        multi = {"suggestedTag": other[:2], "relatedTag": other[1:3] or other[:1]}
        for a, vals in multi.items():
            def add_multi(rt, a=a, vals=vals):
                n = add_node(find(rt, names[0]), "Zq-multi-" + a, "multi valued", {a: vals}, lib)
            menu.append((f"add-node-multi-valued:{a}", add_multi))
    for flag in ("extensionAllowed", "requireChild", "tagGroup", "topLevelTagGroup", "unique", "reserved"):
        if any(d.findtext("name") == flag for d in root.iter("schemaAttributeDefinition")):
            def add_flag(rt, flag=flag):
                add_node(find(rt, names[0]), "Zq-flag-" + flag, "flagged", {flag: []}, lib)
            menu.append((f"add-node-flag:{flag}", add_flag))
    if unit_classes and value_classes:
        for ucs, vcs in (([unit_classes[0]], [value_classes[0]]), (unit_classes[:2], []), ([], value_classes[:2]), ([], [])):
            def add_value(rt, ucs=ucs, vcs=vcs):
                p = add_node(find(rt, names[0]), "Zq-valued-%d-%d" % (len(ucs), len(vcs)), "takes a value", {}, lib)
                attrs = {"takesValue": []}
                if ucs:
                    attrs["unitClass"] = ucs
                if vcs:
                    attrs["valueClass"] = vcs
                add_node(p, "#", "the value", attrs, lib)
            menu.append((f"add-value-taking-node:{len(ucs)}u{len(vcs)}v", add_value))
        # a '#' child that carries a value class but no takesValue attribute (compliant; every bundled '#' has takesValue)
        def add_value_plain(rt):
            p = add_node(find(rt, names[0]), "Zq-valued-plain", "takes a value", {}, lib)
            add_node(p, "#", "the value", {"valueClass": [value_classes[0]]}, lib)
        menu.append(("add-value-taking-node:no-takesValue", add_value_plain))

        # a value-taking node whose '#' child is followed by an ordinary child (the sibling listed after the placeholder)
        def add_value_then_sibling(rt):
            p = add_node(find(rt, names[0]), "Zq-valued-sib", "takes a value and has a child", {}, lib)
            add_node(p, "#", "the value", {"takesValue": [], "valueClass": [value_classes[0]]}, lib)
            add_node(p, "Zq-after-placeholder", "listed after the placeholder", {}, lib)
        menu.append(("add-value-taking-node:then-sibling", add_value_then_sibling))
    removable = [x for x in leaf_names if x not in referenced(root)][-3:]
    for nm in removable[:2]:
        def remove_leaf(rt, nm=nm):
            for n, d in all_nodes(rt):
                for c in n.findall("node"):
                    if c.findtext("name") == nm:
                        n.remove(c)
                        return
            sch = rt.find("schema")
            for c in sch.findall("node"):
                if c.findtext("name") == nm:
                    sch.remove(c)
        menu.append((f"remove-leaf:{nm}", remove_leaf))
    target = leaf_names[len(leaf_names) // 2]

    def retarget(rt):
        n = find(rt, target)
        set_attr(n, "suggestedTag", other[:1] or [names[0]])
        d = n.find("description")
        if d is None:
            d = ET.SubElement(n, "description")
        d.text = DESCRIPTIONS[1]
    menu.append(("re-attribute-existing-leaf", retarget))

    def strip_attrs(rt):
        n = find(rt, target)
        for a in list(n.findall("attribute")):
            if a.findtext("name") not in ("inLibrary", "hedId"):
                n.remove(a)
    menu.append(("remove-attributes-of-leaf", strip_attrs))
    # a schema without prologue / epilogue text (a partnered library reloaded unmerged must not show its partner's)
    for which in (("prologue",), ("epilogue",), ("prologue", "epilogue")):
        def clear_text(rt, which=which):
            for w in which:
                e = rt.find(w)
                if e is not None:
                    e.text = ""
        if all(root.find(w) is not None and (root.find(w).text or "").strip() for w in which):
            menu.append(("clear-" + "+".join(which), clear_text))
    ucd = root.find("unitClassDefinitions")
    if ucd is not None:
        def add_unit(rt):
            uc = rt.find("unitClassDefinitions").findall("unitClassDefinition")[0]
            u = ET.SubElement(uc, "unit")
            ET.SubElement(u, "name").text = "zqunit"
            ET.SubElement(u, "description").text = "An added unit."
            set_attr(u, "conversionFactor", ["2.5"])
            if lib:
                set_attr(u, "inLibrary", [lib])
        menu.append(("add-unit", add_unit))

        def add_unit_last(rt):
            classes = rt.find("unitClassDefinitions").findall("unitClassDefinition")
            std = [c for c in classes if not any(a.findtext("name") == "inLibrary" for a in c.findall("attribute"))]
            uc = (std or classes)[-1]
            u = ET.SubElement(uc, "unit")
            ET.SubElement(u, "name").text = "zqlastunit"
            ET.SubElement(u, "description").text = "A unit added to the last unit class."
            set_attr(u, "conversionFactor", ["0.5"])
            if lib:
                set_attr(u, "inLibrary", [lib])
        menu.append(("add-unit:last-class", add_unit_last))

        def add_unit_class(rt):
            sec = rt.find("unitClassDefinitions")
            uc = ET.SubElement(sec, "unitClassDefinition")
            ET.SubElement(uc, "name").text = "zqUnits"
            ET.SubElement(uc, "description").text = "An added unit class."
            set_attr(uc, "defaultUnits", ["zqa"])
            if lib:
                set_attr(uc, "inLibrary", [lib])
            for un in ("zqa", "zqb"):
                u = ET.SubElement(uc, "unit")
                ET.SubElement(u, "name").text = un
                set_attr(u, "unitSymbol", [])
                if lib:
                    set_attr(u, "inLibrary", [lib])
        menu.append(("add-unit-class", add_unit_class))

        def add_value_class(rt):
            sec = rt.find("valueClassDefinitions")
            vc = ET.SubElement(sec, "valueClassDefinition")
            ET.SubElement(vc, "name").text = "zqClass"
            ET.SubElement(vc, "description").text = "An added value class."
            set_attr(vc, "allowedCharacter", ["letters", "digits"])
            if lib:
                set_attr(vc, "inLibrary", [lib])
        menu.append(("add-value-class", add_value_class))

        def add_modifier(rt):
            sec = rt.find("unitModifierDefinitions")
            m = ET.SubElement(sec, "unitModifierDefinition")
            ET.SubElement(m, "name").text = "zqmod"
            ET.SubElement(m, "description").text = "An added modifier."
            set_attr(m, "SIUnitModifier", [])
            set_attr(m, "conversionFactor", ["10^2"])
            if lib:
                set_attr(m, "inLibrary", [lib])
        menu.append(("add-unit-modifier", add_modifier))
    if not lib:
        def add_section_named(rt):
            add_node(rt.find("schema"), "Properties", TOP_LEVEL_SECTION_NAME, {}, None)
        menu.append(("add-top-level-node-named-like-a-section", add_section_named))
    if lib:
        def add_rooted(rt):
            std_top = None
            for n, d in all_nodes(rt):
                if d == 0 and not any(a.findtext("name") == "inLibrary" for a in n.findall("attribute")):
                    std_top = n
                    break
            add_node(std_top, "Zq-rooted-node", "A rooted library node.", {"rooted": [std_top.findtext("name")]}, lib)
        menu.append(("add-rooted-library-node", add_rooted))
        for parent_name in ("Event", "Agent", "Item"):
            def add_rooted_tree(rt, parent_name=parent_name):
                parent = find(rt, parent_name) if False else None
                for n, d in all_nodes(rt):
                    if d == 0 and n.findtext("name") == parent_name:
                        parent = n
                if parent is None:
                    return
                top = add_node(parent, "Zq-rooted-" + parent_name, "A rooted library subtree.", {"rooted": [parent_name]}, lib)
                kid = add_node(top, "Zq-rooted-kid-" + parent_name, "Child of the rooted node.", {}, lib)
                add_node(kid, "Zq-rooted-grandkid-" + parent_name, "Grandchild.", {}, lib)
            menu.append((f"add-rooted-subtree:{parent_name}", add_rooted_tree))
    return menu


def c_nodes(n):
    return n.findall("node")


def referenced(root):
    out = set()
    for a in root.iter("attribute"):
        if a.findtext("name") in ("suggestedTag", "relatedTag", "rooted"):
            for v in a.findall("value"):
                out.update((v.text or "").split(","))
    return out


def pruned(fname, keep_top=3, keep_children=2, max_depth=3):
    root = ET.parse(os.path.join(core.SCHEMA_DATA, fname)).getroot()
    sch = root.find("schema")
    lib = root.get("library") if root.get("withStandard") else None

    def is_lib(n):
        return any(a.findtext("name") == "inLibrary" for a in n.findall("attribute"))

    def prune(e, depth):
        kids = e.findall("node")
        keep = [k for k in kids if k.findtext("name") == "#"]
        normal = [k for k in kids if k.findtext("name") != "#"]
        libk = [k for k in normal if is_lib(k)]
        limit = keep_top if depth == 0 else keep_children
        chosen = normal[:limit] + [k for k in libk if k not in normal[:limit]][:2]
        for k in kids:
            if k not in keep and k not in chosen:
                e.remove(k)
        if depth >= max_depth:
            for k in list(e.findall("node")):
                if k.findtext("name") != "#":
                    e.remove(k)
            return
        for k in e.findall("node"):
            prune(k, depth + 1)
    prune(sch, 0)
    names = {n.findtext("name") for n, d in all_nodes(root)}
    for n, d in all_nodes(root):
        for a in list(n.findall("attribute")):
            if a.findtext("name") in ("suggestedTag", "relatedTag"):
                for v in list(a.findall("value")):
                    if any(x not in names for x in (v.text or "").split(",")):
                        a.remove(v)
                if not a.findall("value"):
                    n.remove(a)
    return root


def apply_history(base_root, menu_labels, hist):
    root = copy.deepcopy(base_root)
    menu = dict(edits_menu(base_root))
    for label in hist:
        menu[label](root)
    return ET.tostring(root, encoding="unicode")


# ---- workers ------------------------------------------------------------------------------------------------------------------------

def worker(rec, shard, nshards, scratch, jobs, seed):
    my = os.path.join(scratch, f"w{shard}")
    os.makedirs(my, exist_ok=True)
    bases = {}
    for ji in core.shard_order(len(jobs), shard, nshards, seed):
        kind, base, hist = jobs[ji]
        if base not in bases:
            if base.startswith("pruned:"):
                bases[base] = pruned(base.split(":", 1)[1])
            else:
                bases[base] = ET.parse(os.path.join(core.SCHEMA_DATA, base)).getroot()
        root = bases[base]
        try:
            xml_text = apply_history(root, None, hist) if hist else ET.tostring(root, encoding="unicode")
        except Exception as e:
            rec.violation(f"C05:harness:edit-failed:{type(e).__name__}", base=base, history=list(hist), error=repr(e)[:200])
            continue
        formats = ("xml", "mediawiki") if base in LEGACY else ("xml", "mediawiki", "tsv")
        label = base + ("" if not hist else " + " + " + ".join(hist))
        round_trip(rec, label, xml_text, my, formats, edited=bool(hist), kind=kind)
        if ji % 37 == 0:
            rec.sample({"base": base, "edits": list(hist)})
    shutil.rmtree(my, ignore_errors=True)


def file_roundtrip_non_ascii():
    """Run in a child interpreter (see locale_check): 8.3.0 with non-ASCII descriptions saved to files in every format and
    loaded back; returns {format: 'equal' | what went wrong}."""
    import shutil
    import tempfile
    from hed.schema import load_schema, from_string
    base = ET.parse(os.path.join(core.SCHEMA_DATA, "HED8.3.0.xml")).getroot()
    lib = None
    first = next(n for n, d in all_nodes(base) if n.findtext("name") != "#")
    add_node(first, "Zq-locale", "Non-ASCII: caf\u00e9 \u00e5ngstr\u00f6m \u4e2d \u00df", {}, lib)
    schema = from_string(ET.tostring(base, encoding="unicode"), ".xml")
    folder = tempfile.mkdtemp(dir="/dev/shm", prefix="verif-c05-locale-")
    out = {"preferred_encoding": __import__("locale").getpreferredencoding(False)}
    try:
        for fmt, save, path in (("xml", schema.save_as_xml, os.path.join(folder, "s.xml")),
                                ("mediawiki", schema.save_as_mediawiki, os.path.join(folder, "s.mediawiki")),
                                ("tsv", schema.save_as_dataframes, os.path.join(folder, "tsvdir"))):
            try:
                save(path)
                back = load_schema(path)
                out[fmt] = "equal" if back == schema else "reloaded schema differs"
            except Exception as e:
                out[fmt] = f"{type(e).__name__}: {str(e)[:120]}"
    finally:
        shutil.rmtree(folder, ignore_errors=True)
    return out


def locale_check(ctx):
    """The files a save writes do not depend on the locale of the process: the same save / reload in child interpreters whose
    default text encoding is ASCII (LC_ALL=C, UTF-8 mode off) and UTF-8."""
    rec = ctx.rec
    for label, env in (("C-locale", {"LC_ALL": "C", "LANG": "C", "PYTHONUTF8": "0", "PYTHONCOERCECLOCALE": "0"}),
                       ("utf8-mode", {"PYTHONUTF8": "1"})):
        rec.n("evaluations", 3)
        rec.n("distinct_nontrivial", 3)
        try:
            res = core.hash_sweep("props.c05", "file_roundtrip_non_ascii", [0], extra_env=env)[0]
        except Exception as e:
            rec.violation("C05:locale:child-failed", environment=label, error=repr(e)[:300])
            continue
        rec.notes.setdefault("locale_check", {})[label] = res.get("preferred_encoding")
        for fmt in ("xml", "mediawiki", "tsv"):
            if res.get(fmt) != "equal":
                rec.violation(f"C05:locale:file-round-trip-depends-on-the-locale:{fmt}", environment=label, result=res.get(fmt),
                              preferred_encoding=res.get("preferred_encoding"))
        rec.outcome("locale:" + label)


def refuses_to_save(ctx):
    from hed.schema import load_schema_version
    from hed.errors.exceptions import HedFileError
    rec = ctx.rec
    d = ctx.subdir("c05m")
    # (two versions of one library merged into one schema are also "several libraries": library = "testlib,testlib")
    for spec in ("testlib_2.0.0,score_1.1.0", ["testlib_2.0.0", "score_1.1.0"], "testlib_2.0.0,testlib_3.0.0",
                 "testlib_3.0.0,testlib_2.0.0", "lb:score_1.1.0,testlib_2.0.0"):
        s = load_schema_version(spec)
        for name, fn in (("get_as_xml_string", lambda: s.get_as_xml_string()),
                         ("get_as_mediawiki_string", lambda: s.get_as_mediawiki_string()),
                         ("get_as_dataframes", lambda: s.get_as_dataframes()),
                         ("save_as_xml", lambda: s.save_as_xml(os.path.join(d, "m.xml"))),
                         ("save_as_mediawiki", lambda: s.save_as_mediawiki(os.path.join(d, "m.mediawiki"))),
                         ("save_as_dataframes", lambda: s.save_as_dataframes(os.path.join(d, "m_tsv"))),
                         ("get_as_xml_string:unmerged", lambda: s.get_as_xml_string(save_merged=False)),
                         ("get_as_mediawiki_string:unmerged", lambda: s.get_as_mediawiki_string(save_merged=False)),
                         ("get_as_dataframes:unmerged", lambda: s.get_as_dataframes(save_merged=False))):
            rec.n("evaluations")
            try:
                fn()
                rec.violation("C05:merged-libraries:saved-instead-of-refusing:" + name, spec=repr(spec))
            except HedFileError:
                rec.outcome("refused")
            except Exception as e:
                rec.violation(f"C05:merged-libraries:{name}:wrong-exception:{type(e).__name__}", spec=repr(spec), error=repr(e)[:200])


def build_jobs(thorough):
    jobs = []
    files = core.bundled_files() if thorough else ["HED8.3.0.xml", "HED_score_2.0.0.xml", "HED_testlib_3.0.0.xml",
                                                   "HED8.0.0.xml", "HED_score_1.0.0.xml"]
    for f in files:
        jobs.append(("bundled", f, ()))
    full_bases = (["HED8.3.0.xml", "HED8.2.0.xml", "HED_testlib_3.0.0.xml", "HED_score_2.0.0.xml"] if thorough
                  else ["HED8.3.0.xml", "HED_testlib_3.0.0.xml"])
    for f in full_bases:
        root = ET.parse(os.path.join(core.SCHEMA_DATA, f)).getroot()
        labels = [l for l, _ in edits_menu(root)]
        if not thorough:
            labels = labels[::2]
        for l in labels:
            jobs.append(("edited-full", f, (l,)))
    for f in ("HED8.3.0.xml", "HED_testlib_3.0.0.xml"):
        partnered = f.startswith("HED_")
        base = f if partnered else "pruned:" + f
        root = ET.parse(os.path.join(core.SCHEMA_DATA, f)).getroot() if partnered else pruned(f)
        labels = [l for l, _ in edits_menu(root)]
        jobs.append(("pruned", base, ()))
        for l in labels:
            jobs.append(("edited-pruned", base, (l,)))
        depth = 3 if thorough else 2
        sub = labels if thorough else labels[::3]
        if partnered:
            core_edits = ["add-unit", "add-unit:last-class", "add-unit-class", "add-value-class", "add-unit-modifier", "add-rooted-library-node",
                          "add-leaf:top", "add-node-multi-valued:suggestedTag", "add-value-taking-node:1u1v", "add-rooted-subtree:Agent",
                          "clear-prologue", "clear-prologue+epilogue"]
            sub = labels[::2] if thorough else [l for l in labels if l in core_edits]
            depth = 2
        for d in range(2, depth + 1):
            pool = sub if d == 2 else sub[::3]
            for hist in itertools.permutations(pool, d):
                jobs.append(("edited-pruned", base, hist))
    return jobs


def run(ctx):
    scratch = ctx.subdir("c05")
    jobs = build_jobs(ctx.thorough)
    ctx.rec.notes["bounds"] = {"jobs": len(jobs), "descriptions": DESCRIPTIONS,
                               "history_depth_on_pruned_bases": 3 if ctx.thorough else 2}
    ctx.parallel(worker, scratch, jobs, ctx.seed)
    refuses_to_save(ctx)
    locale_check(ctx)
    ctx.rec.counts["states"] = len(ctx.rec.states)


def replay(ctx, case):
    rec = core.Rec()
    label = case.get("state", "")
    base, _, rest = label.partition(" + ")
    hist = tuple(rest.split(" + ")) if rest else ()
    root = pruned(base.split(":", 1)[1]) if base.startswith("pruned:") else \
        ET.parse(os.path.join(core.SCHEMA_DATA, base)).getroot()
    xml_text = apply_history(root, None, hist) if hist else ET.tostring(root, encoding="unicode")
    round_trip(rec, label, xml_text, ctx.subdir("c05r"), edited=bool(hist))
    return [(fp, d) for fp, lst in rec.viol.items() for d in lst[:1]]
