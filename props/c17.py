"""C17 - remodeling operations are pure functions of their parameters and input table.

E1: every parameter set generated from the JSON specification of the eight non-summary operations (every flag setting, each
    optional parameter present / absent) x every small table, against reference semantics on list-of-dict tables.
E2: operation lists of length <= 2-3 (composition) and dispatcher histories (1-3 tables through one dispatcher in every
    order and repeatedly): the result for a table is the same from a fresh dispatcher, after other tables and on the second
    pass; input frame and parameter dictionaries are deep-equal before and after.
Invalid lists (every single-fault mutation of each valid specification) must be reported and, through the CLI, not run.
"""
import copy
import io
import itertools
import json
import math
import os

from mc import core

ID = "C17"
LEVEL = "model_checking"
RULE = ("parameter sets: for each of the 8 operations every boolean flag setting x every optional parameter present/absent "
        "(55 sets); tables: every table of 1-3 rows over trial_type in {a,b,n/a} x code in {1,2} x response_time in "
        "{0.3,n/a} with fixed increasing onsets and durations in {0.5,n/a} (+ for merge_consecutive every run pattern of 4-5 rows over {a,b}); operation lists: all single operations and all "
        "ordered pairs (thorough: triples over a 12-set subset); dispatcher histories: every sequence of <= 3 tables from 4 (one with an extra column) "
        "through one dispatcher.  state = (operation list, table); transition = one run_operations call; non-trivial = the "
        "reference result differs from the input table")
ASSUMPTIONS = [
    "tables enter the dispatcher as TSV files read by Dispatcher.get_data_file (the dtypes real data has)",
    "reference semantics are taken from the class docstrings and PARAMS descriptions; parameter values are given the kind "
    "of the column they address (strings for text columns, numbers for numeric columns; factor values are strings)",
    "cells are compared as text, numerically when both sides are numbers; n/a, nan and empty are one value",
    "an operation that names a column the current table does not contain (and does not ignore missing) may raise",
]

ONSETS = [1.0, 2.5, 4.0]


# ---- tables ---------------------------------------------------------------------------------------

def tables(max_rows, thorough):
    cols = ["onset", "duration", "trial_type", "code", "response_time"]
    out = []
    tts = ["a", "b", "n/a"]
    for n in range(1, max_rows + 1):
        for tt in itertools.product(tts, repeat=n):
            for code in itertools.product(["1", "2"], repeat=n):
                if not thorough and n == 3 and code not in (("1", "1", "1"), ("1", "1", "2"), ("1", "2", "1")):
                    continue
                for variant in range(2):
                    rows = []
                    for i in range(n):
                        dur = "0.5" if (variant == 0 or i % 2 == 0) else "n/a"
                        rt = "0.3" if (variant == 0 or i == 0) else "n/a"
                        rows.append({"onset": str(ONSETS[i]), "duration": dur, "trial_type": tt[i], "code": code[i],
                                     "response_time": rt})
                    out.append((cols, rows))
    return out


def to_tsv(cols, rows):
    return "\t".join(cols) + "\n" + "".join("\t".join(r[c] for c in cols) + "\n" for r in rows)


def norm(v):
    if v is None:
        return "n/a"
    if isinstance(v, float) and math.isnan(v):
        return "n/a"
    s = str(v)
    if s in ("", "n/a", "nan", "NaN", "None", "<NA>"):
        return "n/a"
    try:
        f = float(s)
        return ("num", round(f, 9))
    except ValueError:
        return s


def frame_to_table(df):
    cols = [str(c) for c in df.columns]
    rows = [[norm(v) for v in rec] for rec in df.itertuples(index=False)]
    return cols, rows


def table_norm(cols, rows):
    return list(cols), [[norm(r.get(c, "n/a")) for c in cols] for r in rows]


# ---- reference semantics ----------------------------------------------------------------------------

class Missing(Exception):
    pass


class MustRaise(Missing):
    """The documented meaning is an error (e.g. remap_columns, ignore_missing false, a source value that is not in the map)."""


def num(v):
    try:
        f = float(v)
        return None if math.isnan(f) else f
    except (TypeError, ValueError):
        return None


def same_value(cell, value):
    a, b = norm(cell), norm(value)
    return a == b


def ref_apply(op, cols, rows):
    name, p = op["operation"], op["parameters"]
    cols = list(cols)
    rows = [dict(r) for r in rows]
    if name == "remove_rows":
        c = p["column_name"]
        if c not in cols:
            return cols, rows
        return cols, [r for r in rows if not any(same_value(r[c], v) for v in p["remove_values"])]
    if name == "remove_columns":
        miss = [c for c in p["column_names"] if c not in cols]
        if miss and not p["ignore_missing"]:
            raise Missing()
        keep = [c for c in cols if c not in p["column_names"]]
        return keep, [{c: r[c] for c in keep} for r in rows]
    if name == "rename_columns":
        m = p["column_mapping"]
        if any(k not in cols for k in m) and not p["ignore_missing"]:
            raise Missing()
        new = [m.get(c, c) for c in cols]
        if len(set(new)) != len(new):
            raise Missing()         # two columns of one name: not a table the reference (or the statement) describes
        return new, [{m.get(c, c): r[c] for c in cols} for r in rows]
    if name == "reorder_columns":
        order = p["column_order"]
        miss = [c for c in order if c not in cols]
        if miss and not p["ignore_missing"]:
            raise Missing()
        new = [c for c in order if c in cols]
        if p["keep_others"]:
            new += [c for c in cols if c not in new]
        return new, [{c: r[c] for c in new} for r in rows]
    if name == "factor_column":
        c = p["column_name"]
        if c not in cols:
            raise Missing()
        values = p.get("factor_values")
        names = p.get("factor_names")
        if not values:
            values = []
            for r in rows:
                v = r[c]
                if not any(same_value(v, w) for w in values):
                    values.append(v)
            disp = ["nan" if norm(v) == "n/a" else str(v) for v in values]
        else:
            disp = list(values)
        if not names:
            names = [c + "." + d for d in disp]
        for v, nm in zip(values, names):
            if nm not in cols:
                cols.append(nm)
            for r in rows:
                r[nm] = "1" if (same_value(r[c], v) and norm(r[c]) != "n/a") or (norm(v) == "n/a" and norm(r[c]) == "n/a") \
                    else "0"
        return cols, rows
    if name == "remap_columns":
        src, dst = p["source_columns"], p["destination_columns"]
        if any(c not in cols for c in src):
            raise Missing()
        for d in dst:
            if d not in cols:
                cols.append(d)
        unmatched = False
        for r in rows:
            hit = None
            for entry in p["map_list"]:
                if all(same_value(r[c], entry[i]) for i, c in enumerate(src)):
                    hit = entry
                    break
            if hit is None:
                unmatched = True
            for j, d in enumerate(dst):
                r[d] = str(hit[len(src) + j]) if hit is not None else "n/a"
        if unmatched and not p["ignore_missing"]:
            raise MustRaise()
        return cols, rows
    if name == "merge_consecutive":
        c = p["column_name"]
        if c not in cols:
            if not p["ignore_missing"]:
                raise Missing()
            raise Missing()     # the documented behaviour without the anchor column is not specified: not judged
        if p["set_durations"] and ("onset" not in cols or "duration" not in cols):
            raise Missing()
        if p["set_durations"] and any(num(r["duration"]) is None or num(r["onset"]) is None for r in rows):
            raise Missing()     # arithmetic is judged only on tables whose onset / duration cells are numeric
        match = [m for m in (p.get("match_columns") or [])]
        if any(m not in cols for m in match) and not p["ignore_missing"]:
            raise Missing()
        match = [m for m in match if m in cols]
        out = []
        prev = None     # (kept row, last row of the run)
        for r in rows:
            is_code = same_value(r[c], p["event_code"]) and norm(r[c]) != "n/a"
            if is_code and prev is not None and all(norm(r[m]) == norm(prev[1][m]) for m in match):
                if p["set_durations"]:
                    end = (num(r["onset"]) or 0.0) + (num(r["duration"]) or 0.0)
                    first = prev[0]
                    cur_end = (num(first["onset"]) or 0.0) + (num(first["duration"]) or 0.0)
                    first["duration"] = str(max(end, cur_end) - (num(first["onset"]) or 0.0))
                prev = (prev[0], r)
                continue
            out.append(r)
            prev = (r, r) if is_code else None
        return cols, out
    if name == "split_rows":
        if "onset" not in cols or "duration" not in cols:
            raise Missing()
        a = p["anchor_column"]
        # every column the operation names must be there, whether or not a row will use it
        for spec in p["new_events"].values():
            named = [x for x in spec["onset_source"] + spec["duration"] if isinstance(x, str)] + \
                list(spec.get("copy_columns", []) or [])
            if any(x not in cols for x in named):
                raise Missing()
        if a not in cols:
            cols.append(a)
            for r in rows:
                r[a] = "n/a"
        new_rows = [] if p["remove_parent_row"] else [dict(r) for r in rows]
        for ev, spec in p["new_events"].items():
            for r in rows:
                onset = num(r["onset"])
                bad = onset is None
                for s in spec["onset_source"]:
                    if isinstance(s, (int, float)):
                        onset = (onset or 0) + s
                    else:
                        if s not in cols:
                            raise Missing()
                        v = num(r[s])
                        if v is None:
                            bad = True
                        else:
                            onset = (onset or 0) + v
                if bad:
                    continue
                dur = 0.0
                dur_bad = False
                for s in spec["duration"]:
                    if isinstance(s, (int, float)):
                        dur += s
                    else:
                        if s not in cols:
                            raise Missing()
                        v = num(r[s])
                        if v is None:
                            dur_bad = True
                        else:
                            dur += v
                nr = {c: "n/a" for c in cols}
                nr["onset"] = str(onset)
                nr["duration"] = "n/a" if dur_bad else str(dur)
                nr[a] = ev
                for cc in spec.get("copy_columns", []) or []:
                    if cc not in cols:
                        raise Missing()
                    nr[cc] = r[cc]
                new_rows.append(nr)
        new_rows.sort(key=lambda r: (num(r["onset"]) if num(r["onset"]) is not None else float("inf")))
        return cols, new_rows
    raise ValueError(name)


# ---- parameter sets from the specification ------------------------------------------------------------

def op(name, **params):
    return {"operation": name, "description": name, "parameters": params}


def parameter_sets():
    B = (True, False)
    out = []
    out.append(op("remove_rows", column_name="trial_type", remove_values=["a"]))
    out.append(op("remove_rows", column_name="trial_type", remove_values=["a", "b"]))
    out.append(op("remove_rows", column_name="code", remove_values=[1]))
    out.append(op("remove_rows", column_name="nope", remove_values=["a"]))
    for ig in B:
        out.append(op("remove_columns", column_names=["code"], ignore_missing=ig))
        out.append(op("remove_columns", column_names=["code", "nope"], ignore_missing=ig))
        out.append(op("rename_columns", column_mapping={"code": "kode"}, ignore_missing=ig))
        out.append(op("rename_columns", column_mapping={"code": "kode", "nope": "x"}, ignore_missing=ig))
        # a new name that is also a key of the mapping: the renaming is simultaneous (a swap, a chain)
        out.append(op("rename_columns", column_mapping={"code": "response_time", "response_time": "code"}, ignore_missing=ig))
        out.append(op("rename_columns", column_mapping={"trial_type": "code", "code": "kind"}, ignore_missing=ig))
        for ko in B:
            out.append(op("reorder_columns", column_order=["trial_type", "onset"], ignore_missing=ig, keep_others=ko))
            out.append(op("reorder_columns", column_order=["code", "nope", "onset"], ignore_missing=ig, keep_others=ko))
    out.append(op("factor_column", column_name="trial_type"))
    out.append(op("factor_column", column_name="trial_type", factor_values=["a", "b"]))
    out.append(op("factor_column", column_name="trial_type", factor_values=["a", "b"], factor_names=["isA", "isB"]))
    out.append(op("factor_column", column_name="code", factor_values=["1", "2"], factor_names=["one", "two"]))
    out.append(op("factor_column", column_name="code"))
    for ig in B:
        out.append(op("remap_columns", source_columns=["trial_type"], destination_columns=["kind"],
                      map_list=[["a", "first"], ["b", "second"]], ignore_missing=ig))
        out.append(op("remap_columns", source_columns=["trial_type", "code"], destination_columns=["kind", "level"],
                      map_list=[["a", 1, "first", "low"], ["b", 2, "second", "high"], ["a", 2, "first", "high"]],
                      ignore_missing=ig, integer_sources=["code"]))
        # a key listed twice (with different destinations; the key itself occurs in no table, so which of the two entries
        # wins is never asked) must not disturb the entries listed after it
        out.append(op("remap_columns", source_columns=["trial_type"], destination_columns=["kind"],
                      map_list=[["c", "x1"], ["c", "x2"], ["a", "first"], ["b", "second"]], ignore_missing=ig))
        # destination values that contain quote characters are written as they stand
        out.append(op("remap_columns", source_columns=["trial_type"], destination_columns=["kind"],
                      map_list=[["a", "don't respond"], ["b", "\"hold\""]], ignore_missing=ig))
        # two source columns whose values concatenate to the same text for different rows ('a' + '12' and 'a1' + '2')
        out.append(op("remap_columns", source_columns=["trial_type", "code"], destination_columns=["kind"],
                      map_list=[["a", 12, "first"], ["a1", 2, "second"], ["b", 1, "third"]], ignore_missing=ig))
    for sd in B:
        for ig in B:
            out.append(op("merge_consecutive", column_name="trial_type", event_code="a", set_durations=sd,
                          ignore_missing=ig))
            out.append(op("merge_consecutive", column_name="trial_type", event_code="a", set_durations=sd,
                          ignore_missing=ig, match_columns=["code"]))
    for rp in B:
        out.append(op("split_rows", anchor_column="trial_type", remove_parent_row=rp,
                      new_events={"resp": {"onset_source": ["response_time"], "duration": [0.2]}}))
        out.append(op("split_rows", anchor_column="trial_type", remove_parent_row=rp,
                      new_events={"resp": {"onset_source": ["response_time"], "duration": [0.2], "copy_columns": ["code"]},
                                  "late": {"onset_source": [0.7], "duration": ["duration", 0.1]}}))
        out.append(op("split_rows", anchor_column="marker", remove_parent_row=rp,
                      new_events={"m": {"onset_source": [0.25], "duration": [0]}}))
        # new events that land exactly on the onset of the next row and on each other: rows of equal onset keep the order
        # parent rows, then new events as listed
        out.append(op("split_rows", anchor_column="marker", remove_parent_row=rp,
                      new_events={"tie1": {"onset_source": [1.5], "duration": [0]},
                                  "tie2": {"onset_source": [1.5], "duration": [0.1]},
                                  "tie3": {"onset_source": [3.0], "duration": [0]}}))
    return out


def single_faults(valid_op):
    """Every single-fault mutation of one valid operation dictionary."""
    out = []
    for k in list(valid_op):
        d = copy.deepcopy(valid_op)
        del d[k]
        out.append(("missing-" + k, d))
    d = copy.deepcopy(valid_op)
    d["extra"] = 1
    out.append(("extra-top-field", d))
    d = copy.deepcopy(valid_op)
    d["operation"] = "no_such_operation"
    out.append(("unknown-operation", d))
    d = copy.deepcopy(valid_op)
    d["parameters"]["zz_extra"] = True
    out.append(("extra-parameter", d))
    for k, v in valid_op["parameters"].items():
        d = copy.deepcopy(valid_op)
        d["parameters"][k] = {"bad": 1} if not isinstance(v, dict) else 7
        out.append(("mistyped-" + k, d))
        spec = None
    return out


# ---- execution ---------------------------------------------------------------------------------------

class Env:
    def __init__(self, scratch):
        self.scratch = scratch
        os.makedirs(scratch, exist_ok=True)
        self.paths = {}

    def path_for(self, cols, rows):
        text = to_tsv(cols, rows)
        p = self.paths.get(text)
        if p is None:
            p = os.path.join(self.scratch, f"t{len(self.paths)}_events.tsv")
            with open(p, "w") as f:
                f.write(text)
            self.paths[text] = p
        return p


def required_ok(ops):
    from hed.tools.remodeling.remodeler_validator import RemodelerValidator
    return RemodelerValidator().validate(ops)


def run_list(env, rec, ops, cols, rows, label):
    """Run an operation list on one table; compare with the reference composition."""
    from hed.tools.remodeling.dispatcher import Dispatcher
    import pandas as pd
    rec.n("evaluations")
    rec.n("transitions")
    path = env.path_for(cols, rows)
    ops_before = copy.deepcopy(ops)
    try:
        rcols, rrows = cols, rows
        for o in ops:
            rcols, rrows = ref_apply(o, rcols, rrows)
        expected = table_norm(rcols, rrows)
        may_raise = False
        must_raise = False
    except MustRaise:
        expected, may_raise = None, True
        must_raise = len(ops) == 1
    except Missing:
        expected = None
        may_raise = True
        must_raise = False
    if any(o["operation"] == "remap_columns" and (o["parameters"].get("integer_sources") or
                                                  "code" in o["parameters"]["source_columns"]) for o in ops[:-1]):
        # remap_columns with integer_sources hands its source columns on as text; what later operations that address
        # those columns by numeric value do is a question of cell *kind* the statement leaves open: purity only
        expected, may_raise = None, True
    for k, o in enumerate(ops):
        # integer_sources truncates whatever the named column holds; after a rename has moved a non-integer column under
        # that name the reference (which keys on the cell as read) no longer applies: purity only
        if o["operation"] == "remap_columns" and o["parameters"].get("integer_sources") and any(
                b["operation"] == "rename_columns" and set(b["parameters"]["column_mapping"].values()) &
                set(o["parameters"]["integer_sources"]) for b in ops[:k]):
            expected, may_raise = None, True
    try:
        disp = Dispatcher(copy.deepcopy(ops_before), data_root=None, backup_name=None)
        # frame path as well: the input frame must not change
        df_in = disp.get_data_file(path)
        snapshot = df_in.copy(deep=True)
        res = disp.run_operations(df_in)
        res_file = disp.run_operations(path)
    except Exception as e:
        if may_raise:
            rec.outcome("raises-allowed")
            return None
        import traceback
        frames = [f for f in traceback.extract_tb(e.__traceback__) if "/hed/" in f.filename]
        where = frames[-1].filename.split("/hed/")[-1].replace(".py", "") + ":" + frames[-1].name if frames else "?"
        sig = opt_sig(ops) if len(ops) == 1 else "in-list"
        rec.violation(f"C17:valid-list-raises:{type(e).__name__}:{where}:{sig}",
                      ops=ops_before, table=to_tsv(cols, rows), error=repr(e)[:300])
        rec.outcome("raises")
        return None
    if must_raise:
        rec.violation(f"C17:documented-error-not-raised:{ops[0]['operation']}", ops=ops_before, table=to_tsv(cols, rows),
                      returned=frame_to_table(res))
        return None
    if not snapshot.equals(df_in) or list(snapshot.dtypes) != list(df_in.dtypes):
        rec.violation(f"C17:input-frame-changed:{ops[0]['operation']}", ops=ops_before, table=to_tsv(cols, rows))
    got = frame_to_table(res)
    got2 = frame_to_table(res_file)
    if got != got2:
        rec.violation("C17:frame-and-file-path-differ", ops=ops_before, table=to_tsv(cols, rows))
    if expected is not None:
        if got != (expected[0], expected[1]):
            rec.violation(f"C17:result-differs:{'+'.join(sorted(set(o['operation'] for o in ops)))}", ops=ops_before,
                          table=to_tsv(cols, rows), expected=expected, got=got)
            rec.outcome("differs")
            return None
        if expected != table_norm(cols, rows):
            rec.n("distinct_nontrivial")
        rec.outcome("ok")
    return got


def opt_sig(ops):
    """Which optional parameters are present / which flags are set (for fingerprints)."""
    sig = []
    for o in ops:
        p = o["parameters"]
        sig.append(",".join(sorted(k for k, v in p.items() if v is True or k in ("factor_values", "factor_names",
                                                                                  "match_columns", "integer_sources"))))
    return "|".join(sig)


def worker_single(rec, shard, nshards, scratch, max_rows, thorough, seed):
    env = Env(os.path.join(scratch, f"w{shard}"))
    psets = parameter_sets()
    tabs = tables(max_rows, thorough)
    # every parameter set is valid according to the validator
    if shard == 0:
        for o in psets:
            msgs = required_ok([copy.deepcopy(o)])
            if msgs:
                rec.violation("C17:harness-parameter-set-refused", op=o, messages=msgs)
    cases = [(i, j) for i in range(len(psets)) for j in range(len(tabs))]
    # merge_consecutive looks at runs of rows: four and five rows give a lone run before / after / between merged runs
    runs = []
    for n in (4, 5):
        for tt in itertools.product(["a", "b"], repeat=n):
            for code in (("1",) * n, tuple("12"[i % 2] for i in range(n))):
                rows = [{"onset": str(1.0 + 1.5 * i), "duration": "0.5", "trial_type": tt[i], "code": code[i],
                         "response_time": "0.3"} for i in range(n)]
                runs.append((tabs[0][0], rows))
    # whole-number durations with fractional onsets (the merged duration is fractional)
    for tt in (("a", "a", "b"), ("a", "a", "a"), ("b", "a", "a")):
        rows = [{"onset": str(1.5 + 0.5 * i), "duration": str(1 + i), "trial_type": tt[i], "code": "1", "response_time": "0.3"}
                for i in range(3)]
        runs.append((tabs[0][0], rows))
    # runs in which the row that ends latest is the first, a middle or the last one
    for durs in (("1", "10", "1"), ("10", "1", "1"), ("1", "1", "10"), ("1", "10", "1", "1")):
        for tail in ((), ("b",)):
            tt = ("a",) * len(durs) + tail
            rows = [{"onset": str(1.0 + 0.5 * i), "duration": (durs + ("0.5",))[i], "trial_type": tt[i], "code": "1",
                     "response_time": "0.3"} for i in range(len(tt))]
            runs.append((tabs[0][0], rows))
    # two runs of the event code side by side that differ in a match column, the second one longer than one row
    for code in (("1", "1", "2", "2", "2"), ("1", "2", "2"), ("1", "1", "1", "2", "2"), ("2", "2", "1", "1", "2")):
        rows = [{"onset": str(1.0 + 1.5 * i), "duration": "0.5", "trial_type": "a", "code": code[i], "response_time": "0.3"}
                for i in range(len(code))]
        runs.append((tabs[0][0], rows))
    base = len(tabs)
    tabs = tabs + runs
    cases += [(i, base + j) for i in range(len(psets)) if psets[i]["operation"] == "merge_consecutive"
              for j in range(len(runs))]
    # n/a in a column that a remap reads (as text or as integer source)
    na_tabs = []
    for code in (("1", "n/a"), ("n/a", "2"), ("n/a", "n/a"), ("2", "1", "n/a")):
        rows = [{"onset": str(ONSETS[i]), "duration": "0.5", "trial_type": "ab"[i % 2], "code": c, "response_time": "0.3"}
                for i, c in enumerate(code)]
        na_tabs.append((tabs[0][0], rows))
    for tt, code in ((("a", "a1"), ("12", "2")), (("a1", "a"), ("2", "12")), (("a", "a1", "b"), ("12", "12", "1"))):
        rows = [{"onset": str(ONSETS[i]), "duration": "0.5", "trial_type": tt[i], "code": code[i], "response_time": "0.3"}
                for i in range(len(tt))]
        na_tabs.append((tabs[0][0], rows))
    base2 = len(tabs)
    tabs = tabs + na_tabs
    cases += [(i, base2 + j) for i in range(len(psets)) if psets[i]["operation"] == "remap_columns"
              for j in range(len(na_tabs))]
    for ci in core.shard_order(len(cases), shard, nshards, seed):
        i, j = cases[ci]
        cols, rows = tabs[j]
        rec.state(("single", i, j))
        run_list(env, rec, [psets[i]], cols, rows, "single")
        if ci % 2003 == 0:
            rec.sample({"ops": [psets[i]], "table": to_tsv(cols, rows)})


def worker_lists(rec, shard, nshards, scratch, thorough, seed):
    env = Env(os.path.join(scratch, f"l{shard}"))
    psets = parameter_sets()
    tabs = tables(2, False)[::3] + tables(3, False)[-12::4]
    if not thorough:
        tabs = tabs[::4] + tabs[-2:]
    pairs = [(a, b) for a in range(len(psets)) for b in range(len(psets))]
    lists = [[psets[a], psets[b]] for a, b in pairs]
    if thorough:
        sub = list(range(0, len(psets), 4))
        lists += [[psets[a], psets[b], psets[c]] for a in sub for b in sub for c in sub]
    for li in core.shard_order(len(lists), shard, nshards, seed):
        ops = lists[li]
        for j, (cols, rows) in enumerate(tabs):
            rec.state(("list", li, j))
            run_list(env, rec, ops, cols, rows, "list")


def worker_histories(rec, shard, nshards, scratch, thorough, seed):
    """1-3 tables pushed through ONE dispatcher in every order and repeatedly; parameters unchanged afterwards."""
    from hed.tools.remodeling.dispatcher import Dispatcher
    from hed.tools.remodeling.remodeler_validator import RemodelerValidator
    env = Env(os.path.join(scratch, f"h{shard}"))
    psets = parameter_sets()
    t3 = tables(3, False)
    tabs = [t3[5], t3[len(t3) // 2], t3[-7]]
    # a table with one more column than the others (state kept from one table must not leak its column set into the next)
    c0, r0 = tabs[0]
    tabs.append((c0 + ["note"], [dict(r, note="n%d" % i) for i, r in enumerate(r0)]))
    seqs = []
    for n in (1, 2, 3):
        seqs += list(itertools.product(range(len(tabs)), repeat=n))
    for pi in core.shard_order(len(psets), shard, nshards, seed):
        o = psets[pi]
        fresh = {}
        for k, (cols, rows) in enumerate(tabs):
            try:
                fresh[k] = frame_to_table(Dispatcher([copy.deepcopy(o)], data_root=None, backup_name=None)
                                          .run_operations(env.path_for(cols, rows)))
            except Exception as e:
                fresh[k] = ("raises", type(e).__name__)
        for seq in seqs:
            ops = [copy.deepcopy(o)]
            before = copy.deepcopy(ops)
            rec.n("evaluations")
            try:
                disp = Dispatcher(ops, data_root=None, backup_name=None)
            except Exception as e:
                rec.violation("C17:dispatcher-construction-raises:" + type(e).__name__, ops=before, error=repr(e)[:200])
                break
            ok = True
            for step, k in enumerate(seq):
                cols, rows = tabs[k]
                rec.n("transitions")
                try:
                    got = frame_to_table(disp.run_operations(env.path_for(cols, rows)))
                except Exception as e:
                    got = ("raises", type(e).__name__)
                if got != fresh[k]:
                    rec.violation(f"C17:history-dependent-result:{o['operation']}:{opt_sig([o])}", ops=before,
                                  sequence=list(seq), step=step, fresh=fresh[k], got=got)
                    ok = False
                    break
            if ops != before:
                rec.violation(f"C17:parameters-changed:{o['operation']}:{opt_sig([o])}", before=before, after=ops,
                              sequence=list(seq))
                ok = False
            elif RemodelerValidator().validate(ops):
                rec.violation(f"C17:parameters-no-longer-valid:{o['operation']}", ops=ops)
                ok = False
            rec.state(("hist", pi, seq))
            rec.outcome("history-ok" if ok else "history-bad")
            if not ok:
                break


def invalid_lists(ctx):
    """Every single-fault mutation must be reported; through the CLI nothing may be executed."""
    from hed.tools.remodeling.remodeler_validator import RemodelerValidator
    from hed.tools.remodeling.cli import run_remodel
    rec = ctx.rec
    v = RemodelerValidator()
    psets = parameter_sets()
    seen = set()
    for o in psets:
        if o["operation"] in seen:
            continue
        seen.add(o["operation"])
        for kind, bad in single_faults(o):
            rec.n("evaluations")
            for lst in ([bad], [copy.deepcopy(psets[0]), bad]):
                try:
                    msgs = v.validate(lst)
                except Exception as e:
                    rec.violation(f"C17:validator-raises:{type(e).__name__}:{kind.split('-')[0]}", ops=lst, error=repr(e)[:200])
                    continue
                if not msgs:
                    rec.violation(f"C17:invalid-list-accepted:{o['operation']}:{kind}", ops=lst)
                rec.outcome("invalid-reported")
    # faults that pass the JSON-schema stage and are caught by the operation's own check of its parameters, at every position
    # of a list that also holds a sound operation of the same type
    REMAP_GOOD = op("remap_columns", source_columns=["trial_type"], destination_columns=["kind"],
                    map_list=[["a", "first"], ["b", "second"]], ignore_missing=True)
    data_faults = [
        ("factor-names-length", op("factor_column", column_name="trial_type", factor_values=["a", "b"], factor_names=["isA"]),
         op("factor_column", column_name="code", factor_values=["1", "2"], factor_names=["one", "two"])),
        ("map-entry-length", op("remap_columns", source_columns=["trial_type"], destination_columns=["kind"],
                                map_list=[["a", "first"], ["b"]], ignore_missing=True),
         op("remap_columns", source_columns=["trial_type"], destination_columns=["kind"],
            map_list=[["a", "first"], ["b", "second"]], ignore_missing=True)),
        # column lists no table can satisfy (a key column that is also a target, a name listed twice): no run can complete, so
        # the list must not pass
        ("map-source-is-destination", op("remap_columns", source_columns=["trial_type"], destination_columns=["trial_type"],
                                         map_list=[["a", "first"], ["b", "second"]], ignore_missing=True), REMAP_GOOD),
        ("map-source-repeated", op("remap_columns", source_columns=["trial_type", "trial_type"], destination_columns=["kind"],
                                   map_list=[["a", "a", "first"], ["b", "b", "second"]], ignore_missing=True), REMAP_GOOD),
        ("map-destination-repeated", op("remap_columns", source_columns=["trial_type"], destination_columns=["kind", "kind"],
                                        map_list=[["a", "first", "x"], ["b", "second", "y"]], ignore_missing=True), REMAP_GOOD),
        # two columns renamed to one name: the result would have two columns of that name, which no later operation can address
        ("rename-two-columns-to-one-name", op("rename_columns", column_mapping={"code": "kode", "trial_type": "kode"},
                                              ignore_missing=True),
         op("rename_columns", column_mapping={"code": "kode", "trial_type": "type"}, ignore_missing=True)),
        ("anchor-in-match-columns", op("merge_consecutive", column_name="trial_type", event_code="a", set_durations=False,
                                       ignore_missing=True, match_columns=["trial_type"]),
         op("merge_consecutive", column_name="trial_type", event_code="a", set_durations=False, ignore_missing=True)),
    ]
    other = op("rename_columns", column_mapping={"code": "kode"}, ignore_missing=True)
    for kind, bad, good in data_faults:
        if v.validate([copy.deepcopy(good)]):
            rec.violation("C17:harness-parameter-set-refused", op=good)
            continue
        for lst in ([bad], [other, bad], [bad, other], [bad, good], [good, bad], [bad, other, good], [good, other, bad],
                    [good, bad, good]):
            lst = copy.deepcopy(lst)
            rec.n("evaluations")
            rec.n("distinct_nontrivial")
            try:
                msgs = v.validate(lst)
            except Exception as e:
                rec.violation(f"C17:validator-raises:{type(e).__name__}:{kind}", ops=lst, error=repr(e)[:200])
                continue
            if not msgs:
                pos = [o is not None and o == bad for o in lst].index(True)
                rec.violation(f"C17:invalid-list-accepted:{bad['operation']}:{kind}", ops=lst, faulty_position=pos,
                              list_length=len(lst))
            rec.outcome("invalid-reported")
    for lst in ([], {}, "text", [7]):
        try:
            if not v.validate(lst):
                rec.violation("C17:invalid-list-accepted:not-a-list-of-operations", ops=repr(lst))
        except Exception as e:
            rec.violation("C17:validator-raises:" + type(e).__name__ + ":shape", ops=repr(lst))
    # CLI: an invalid second operation must leave every data file untouched
    root = ctx.subdir("cli")
    data = os.path.join(root, "data")
    os.makedirs(os.path.join(data, "sub-01"), exist_ok=True)
    cols, rows = tables(2, False)[4]
    fpath = os.path.join(data, "sub-01", "sub-01_task-x_events.tsv")
    original = to_tsv(cols, rows)
    for kind, bad in single_faults(psets[4])[:6]:
        with open(fpath, "w") as f:
            f.write(original)
        model = os.path.join(root, "model.json")
        with open(model, "w") as f:
            json.dump([op("rename_columns", column_mapping={"code": "kode"}, ignore_missing=True), bad], f)
        rec.n("evaluations")
        raised = False
        try:
            run_remodel.main([data, model, "-nb", "-ns", "-x", "derivatives"])
        except SystemExit:
            raised = True
        except Exception:
            raised = True
        now = open(fpath).read()
        if now != original:
            rec.violation("C17:cli-partially-executed-invalid-list:" + kind, model=[bad], file_now=now)
        if not raised:
            rec.violation("C17:cli-accepted-invalid-list:" + kind, model=[bad])
        rec.outcome("cli-invalid")


def run(ctx):
    max_rows = ctx.pick(3, 3)
    scratch = ctx.subdir("c17")
    ctx.rec.notes["bounds"] = {"parameter_sets": len(parameter_sets()), "tables": len(tables(max_rows, ctx.thorough)),
                               "list_length": 3 if ctx.thorough else 2, "history_length": 3}
    ctx.parallel(worker_single, scratch, max_rows, ctx.thorough, ctx.seed)
    ctx.parallel(worker_lists, scratch, ctx.thorough, ctx.seed)
    ctx.parallel(worker_histories, scratch, ctx.thorough, ctx.seed)
    invalid_lists(ctx)
    ctx.rec.counts["states"] = len(ctx.rec.states)


def replay(ctx, case):
    rec = core.Rec()
    env = Env(ctx.subdir("replay"))
    if "ops" in case and "table" in case:
        lines = case["table"].strip("\n").split("\n")
        cols = lines[0].split("\t")
        rows = [dict(zip(cols, l.split("\t"))) for l in lines[1:]]
        run_list(env, rec, case["ops"], cols, rows, "replay")
    return [(fp, d) for fp, lst in rec.viol.items() for d in lst[:1]]
