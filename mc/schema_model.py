"""Independent reading of a HED schema XML file (xml.etree only - never imports hed).

model = load(path_or_text)
  model.header            dict of <HED ...> attributes
  model.tags              list of Tag in document order (no '#' nodes)
  model.by_long           casefolded long name -> Tag
  model.by_short          casefolded short name -> Tag   (duplicates recorded in model.dup_short)
  model.unit_classes      name -> UnitClass(units: name -> Unit, attrs)
  model.modifiers         name -> Modifier(attrs)
  model.value_classes     name -> attrs
  model.attr_defs         name -> set(property names)
  model.properties        name -> description
Tag: name, long, parent, children, attrs (own; multi-valued kept as list), desc, value_child (Tag-like for '#') or None,
     inherited(name) -> value / True / None following the schema's inheritance rule.
"""
import xml.etree.ElementTree as ET


class Node:
    __slots__ = ("name", "long", "parent", "children", "attrs", "desc", "value_child", "depth", "model")

    def __init__(self):
        self.children = []
        self.attrs = {}
        self.desc = None
        self.value_child = None
        self.parent = None

    def __repr__(self):
        return f"<Tag {self.long}>"

    def own(self, attr):
        return self.attrs.get(attr)

    def inherited(self, attr):
        """Value of attr for this tag taking the schema's inheritance rule into account (None if absent)."""
        if attr in self.attrs:
            return self.attrs[attr]
        if not self.model.is_inherited(attr):
            return None
        p = self.parent
        while p is not None:
            if attr in p.attrs:
                return p.attrs[attr]
            p = p.parent
        return None

    def has(self, attr):
        return self.inherited(attr) is not None

    @property
    def short(self):
        return self.name

    def ancestors(self):
        out = []
        p = self.parent
        while p is not None:
            out.append(p)
            p = p.parent
        return out

    def terms(self):
        return [t.name for t in reversed(self.ancestors())] + [self.name]


class Model:
    def __init__(self):
        self.header = {}
        self.tags = []
        self.roots = []
        self.by_long = {}
        self.by_short = {}
        self.dup_short = set()
        self.unit_classes = {}
        self.modifiers = {}
        self.value_classes = {}
        self.attr_defs = {}
        self.attr_desc = {}
        self.properties = {}
        self.prologue = ""
        self.epilogue = ""

    # --- inheritance rule
    def is_inherited(self, attr):
        if attr == "extensionAllowed":
            return True
        props = self.attr_defs.get(attr)
        if props is None:
            return False
        if self.uses_annotation_property:
            return "annotationProperty" not in props
        return "isInheritedProperty" in props

    @property
    def uses_annotation_property(self):
        return "annotationProperty" in self.properties

    @property
    def version(self):
        return self.header.get("version")

    @property
    def library(self):
        return self.header.get("library", "")

    @property
    def with_standard(self):
        return self.header.get("withStandard", "")

    def tag(self, name):
        return self.by_short.get(name.casefold()) or self.by_long.get(name.casefold())

    def units_of(self, tag):
        """name -> (unit, class) for every unit of the unit classes of tag's value child."""
        out = {}
        vc = tag.value_child
        if not vc:
            return out
        for cname in as_list(vc.attrs.get("unitClass")):
            uc = self.unit_classes.get(cname)
            if uc:
                for u in uc.units.values():
                    out[u.name] = (u, uc)
        return out


class UnitClass:
    def __init__(self, name):
        self.name = name
        self.attrs = {}
        self.units = {}
        self.desc = None


class Unit:
    def __init__(self, name):
        self.name = name
        self.attrs = {}
        self.desc = None

    def flag(self, a):
        return a in self.attrs


def as_list(v):
    if v is None:
        return []
    if isinstance(v, list):
        return v
    if v is True:
        return []
    return [v]


def _attrs(elem, tagname="attribute"):
    out = {}
    for a in elem.findall(tagname):
        n = a.findtext("name")
        vals = [v.text if v.text is not None else "" for v in a.findall("value")]
        if not vals:
            val = True
        elif len(vals) == 1:
            val = vals[0]
        else:
            val = vals
        if n in out:
            prev = out[n]
            out[n] = as_list(prev) + as_list(val) if prev is not True else val
        else:
            out[n] = val
    return out


def load(path=None, text=None):
    if text is not None:
        root = ET.fromstring(text)
    else:
        root = ET.parse(path).getroot()
    m = Model()
    m.header = {k.split("}")[-1]: v for k, v in root.attrib.items()}
    m.prologue = root.findtext("prologue") or ""
    m.epilogue = root.findtext("epilogue") or ""

    sec = root.find("schemaAttributeDefinitions")
    if sec is not None:
        for d in sec.findall("schemaAttributeDefinition"):
            name = d.findtext("name")
            m.attr_defs[name] = set(_attrs(d, "property").keys())
            m.attr_desc[name] = d.findtext("description")
    sec = root.find("propertyDefinitions")
    if sec is not None:
        for d in sec.findall("propertyDefinition"):
            m.properties[d.findtext("name")] = d.findtext("description")
    sec = root.find("unitClassDefinitions")
    if sec is not None:
        for d in sec.findall("unitClassDefinition"):
            uc = UnitClass(d.findtext("name"))
            uc.attrs = _attrs(d)
            uc.desc = d.findtext("description")
            for u in d.findall("unit"):
                unit = Unit(u.findtext("name"))
                unit.attrs = _attrs(u)
                unit.desc = u.findtext("description")
                uc.units[unit.name] = unit
            m.unit_classes[uc.name] = uc
    sec = root.find("unitModifierDefinitions")
    if sec is not None:
        for d in sec.findall("unitModifierDefinition"):
            u = Unit(d.findtext("name"))
            u.attrs = _attrs(d)
            u.desc = d.findtext("description")
            m.modifiers[u.name] = u
    sec = root.find("valueClassDefinitions")
    if sec is not None:
        for d in sec.findall("valueClassDefinition"):
            u = Unit(d.findtext("name"))
            u.attrs = _attrs(d)
            u.desc = d.findtext("description")
            m.value_classes[u.name] = u

    def walk(elem, parent, depth):
        for ne in elem.findall("node"):
            name = ne.findtext("name")
            t = Node()
            t.model = m
            t.name = name
            t.attrs = _attrs(ne)
            t.desc = ne.findtext("description")
            t.parent = parent
            t.depth = depth
            t.long = (parent.long + "/" + name) if parent is not None else name
            if name == "#":
                if parent is not None:
                    parent.value_child = t
                continue
            if parent is not None:
                parent.children.append(t)
            else:
                m.roots.append(t)
            m.tags.append(t)
            m.by_long[t.long.casefold()] = t
            key = name.casefold()
            if key in m.by_short:
                m.dup_short.add(key)
            else:
                m.by_short[key] = t
            walk(ne, t, depth + 1)

    sch = root.find("schema")
    if sch is not None:
        walk(sch, None, 0)
    return m


def number(text):
    """Numeric factor text -> float, read as a decimal literal with '^' == 'e' (the convention the released 8.3.0
    schema itself adopted when it rewrote '10^6' as '10e6'; recorded as an assumption in DESIGN 3.1).
    Returns None when the text is not a number."""
    if text is None or text is True:
        return None
    t = str(text).strip().replace("^", "e")
    try:
        return float(t)
    except ValueError:
        return None
