"""./check <ID> [--tier quick|thorough] [--replay FILE]

exit 0  property held on everything explored (KNOWN-FINDING lines may be printed)
exit 1  at least one violation not listed in known_findings.json  (VIOLATION property=<id> replay=<path>)
exit 2  harness error (never a verdict)
"""
import argparse
import importlib
import json
import os
import sys
import time
import traceback
import warnings

warnings.filterwarnings("ignore")

from mc import core  # noqa: E402


def main():
    ap = argparse.ArgumentParser()
    ap.add_argument("prop")
    ap.add_argument("--tier", default=os.environ.get("VERIF_TIER", "quick"), choices=["quick", "thorough"])
    ap.add_argument("--replay", default=None)
    ap.add_argument("--budget", type=float, default=None, help="wall-clock cap in seconds (reported, never hidden)")
    a = ap.parse_args()
    prop = a.prop.upper()
    try:
        seed = int(os.environ.get("VERIF_SEED", "0"))
    except ValueError:
        seed = 0
    mod = importlib.import_module(f"props.{prop.lower()}")
    ctx = core.Ctx(prop, a.tier, seed)
    if a.budget:
        ctx.deadline = ctx.t0 + a.budget
    try:
        core.private_cache(ctx)
        if a.replay:
            return do_replay(ctx, mod, a.replay)
        mod.run(ctx)
        return finish(ctx, mod)
    except core.HarnessError as e:
        print(f"HARNESS-ERROR property={prop}: {e}")
        return 2
    except Exception:
        print(f"HARNESS-ERROR property={prop}:")
        traceback.print_exc()
        return 2
    finally:
        ctx.cleanup()


def finish(ctx, mod):
    rec = ctx.rec
    known = core.known_lookup(ctx.prop_id)
    unlisted = 0
    rdir = os.path.join(os.environ.get("VERIF_REPLAY_DIR") or os.path.join(core.VERIF, "replays"), ctx.prop_id)
    for fp in sorted(rec.viol):
        n = rec.viol_n[fp]
        if fp in known:
            print(f"KNOWN-FINDING: property={ctx.prop_id} {fp} ({n} cases) {known[fp]}")
            continue
        unlisted += 1
        os.makedirs(rdir, exist_ok=True)
        path = os.path.join(rdir, core.stable_hash(fp) + ".json")
        with open(path, "w") as f:
            json.dump({"property": ctx.prop_id, "fingerprint": fp, "count": n, "cases": rec.viol[fp],
                       "tier": ctx.tier, "seed": ctx.seed}, f, indent=1, default=str)
        first = rec.viol[fp][0]
        print(f"VIOLATION property={ctx.prop_id} replay={path}")
        print(f"  fingerprint: {fp}  cases: {n}")
        print(f"  first: {json.dumps(first, default=str)[:600]}")
    ev = core.write_evidence(ctx, mod, unlisted)
    cov = ev["coverage"]
    print(f"{ctx.prop_id} tier={ctx.tier} seed={ctx.seed} states={cov['states']} transitions={cov['transitions']} "
          f"evaluations={cov['evaluations']} distinct_nontrivial={cov['distinct_nontrivial']} "
          f"outcomes={cov['distinct_outcomes']} exhaustive={cov['exhaustive']} "
          f"violations={unlisted} known={len(cov['known_findings_seen'])} wall={ev['wall_s']}s")
    if cov["distinct_outcomes"] <= 1 and cov["evaluations"] > 1:
        print(f"WARNING property={ctx.prop_id}: a single distinct outcome from many executions - vacuous?")
    return 1 if unlisted else 0


def do_replay(ctx, mod, path):
    with open(path) as f:
        data = json.load(f)
    if not hasattr(mod, "replay"):
        print("this property has no replay function")
        return 2
    bad = 0
    for case in data["cases"]:
        res = mod.replay(ctx, case)
        for fp, detail in res:
            bad += 1
            print(f"REPRODUCED fingerprint={fp} detail={json.dumps(detail, default=str)[:500]}")
    if bad:
        print(f"VIOLATION property={ctx.prop_id} replay={path}")
        return 1
    print("replay: no violation reproduced on the current tree")
    return 0


if __name__ == "__main__":
    sys.exit(main())
