"""Alphabet discovery (DESIGN 3.3): collect the characters that named functions of the current source compare
against, so that a refactor which starts treating a new character specially enlarges the explored alphabet.
Discovery only ever adds symbols."""
import ast
import os

from mc.core import REPO


def literal_chars(relpath, func_names=None, max_len=4):
    """Characters occurring in short string constants (not docstrings) of the given functions/classes."""
    path = os.path.join(REPO, relpath)
    with open(path, encoding="utf8") as f:
        tree = ast.parse(f.read())
    out = set()

    def visit_body(node):
        doc = ast.get_docstring(node, clean=False) if isinstance(
            node, (ast.FunctionDef, ast.ClassDef, ast.Module, ast.AsyncFunctionDef)) else None
        for sub in ast.walk(node):
            if isinstance(sub, ast.Constant) and isinstance(sub.value, str):
                if doc is not None and sub.value == doc:
                    continue
                if 0 < len(sub.value) <= max_len:
                    out.update(sub.value)

    for node in ast.walk(tree):
        if isinstance(node, (ast.FunctionDef, ast.AsyncFunctionDef)):
            if func_names is None or node.name in func_names:
                visit_body(node)
        elif isinstance(node, ast.ClassDef) and func_names is not None and node.name in func_names:
            # class-level constants such as OPENING_GROUP_CHARACTER
            for stmt in node.body:
                if isinstance(stmt, (ast.Assign, ast.AnnAssign)):
                    visit_body(stmt)
    return out
