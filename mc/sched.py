"""Baton scheduler for threads-as-processes with deviation-bounded exhaustive exploration (DESIGN 3.5).

Each modelled OS process is a Python thread running the real function.  The only interaction between real processes is
the file system, so the scheduling points are the interposed file / lock / clock operations: a thread calls
`sched.point(kind, detail)` *before* each of them and is parked until the scheduler hands it the baton.

One execution = one run of all processes under a list of choices.  At every point the scheduler builds the canonical list
of enabled alternatives  [running thread if still enabled, other threads by ascending id, lock time-outs, crashes]  and takes
`choices[i]` (0 = default = no deviation).  Deviations: switching away from a runnable thread (preemption), letting a lock
time-out fire, crashing a process.  `explore` enumerates every choice list whose number of deviations stays within the
bound; executions always run to completion.
"""
import threading


class Crash(BaseException):
    """Unwinds a crashed process; every later interposed operation of that process raises it again."""


class Deadlock(Exception):
    pass


class Proc:
    def __init__(self, pid, name, fn, may_crash=False):
        self.pid, self.name, self.fn, self.may_crash = pid, name, fn, may_crash
        self.sem = threading.Semaphore(0)
        self.state = "new"        # new | parked | running | done | dead
        self.pending = None       # (kind, detail) of the point it is parked at
        self.result = None
        self.error = None
        self.thread = None
        self.resume_mode = "go"   # go | timeout | crash
        self.steps = 0


class Execution:
    """One run of the harness under a fixed choice prefix."""

    def __init__(self, procs_spec, choices, crash_allowed=True):
        self.procs = [Proc(i, n, f, mc) for i, (n, f, mc) in enumerate(procs_spec)]
        self.choices = list(choices)
        self.points = []          # per point: dict(enabled=[(pid, variant)], chosen=int, running_enabled=bool)
        self.taken = []
        self.log = []             # observation log (kind, pid, detail)
        self.locks = {}           # lock name -> holder pid
        self.ctl = threading.Semaphore(0)
        self.running = None
        self.deviations = 0
        self.tls = threading.local()
        self.crash_allowed = crash_allowed
        self.max_points = 5000

    # ---- called from process threads
    def me(self):
        return getattr(self.tls, "proc", None)

    def point(self, kind, detail=""):
        p = self.me()
        if p is None:
            return "go"           # not a modelled process (harness set-up code): no scheduling
        if p.state == "dead":
            raise Crash()
        p.pending = (kind, detail)
        p.state = "parked"
        self.ctl.release()
        p.sem.acquire()
        if p.resume_mode == "crash":
            p.state = "dead"
            raise Crash()
        p.state = "running"
        p.steps += 1
        mode = p.resume_mode
        p.resume_mode = "go"
        return mode

    def _thread_main(self, p):
        self.tls.proc = p
        p.sem.acquire()
        if p.resume_mode == "crash":
            p.state = "dead"
            self.ctl.release()
            return
        p.state = "running"
        try:
            p.result = p.fn()
        except Crash:
            p.state = "dead"
            self._release_locks(p)
            self.ctl.release()
            return
        except BaseException as e:   # the subject's own failure is an observation, not a harness error
            p.error = e
        p.state = "done"
        self._release_locks(p)
        self.ctl.release()

    def _release_locks(self, p):
        for name, holder in list(self.locks.items()):
            if holder == p.pid:
                del self.locks[name]

    # ---- lock model (used by the portalocker stand-in)
    def lock_free(self, name, pid):
        return self.locks.get(name) in (None, pid)

    # ---- scheduler
    def _enabled(self):
        go, timeouts, crashes = [], [], []
        for p in self.procs:
            if p.state in ("parked", "new"):
                kind = p.pending[0] if p.pending else "start"
                if kind == "lock-acquire" and not self.lock_free(p.pending[1], p.pid):
                    timeouts.append((p.pid, "timeout"))
                else:
                    go.append((p.pid, "go"))
                if p.may_crash and self.crash_allowed and p.state == "parked":
                    crashes.append((p.pid, "crash"))
        running_enabled = self.running is not None and (self.running, "go") in go
        if running_enabled:
            go.remove((self.running, "go"))
            go.insert(0, (self.running, "go"))
        return go, timeouts, crashes, running_enabled

    def run(self):
        for p in self.procs:
            p.thread = threading.Thread(target=self._thread_main, args=(p,), daemon=True)
            p.thread.start()
        i = 0
        while True:
            go, timeouts, crashes, running_enabled = self._enabled()
            if not go and not timeouts:
                break
            enabled = go + timeouts + crashes
            if not go:
                # only blocked lock waiters are left: their time-out is the only way forward (not a deviation)
                enabled = timeouts + crashes
            if i < len(self.choices):
                c = self.choices[i]
                if c >= len(enabled):
                    raise Divergence(f"replay divergence at point {i}: choice {c} of {len(enabled)}")
            else:
                c = 0
            pid, variant = enabled[c]
            cost = alt_cost(enabled, c, running_enabled and bool(go))
            self.points.append({"enabled": enabled, "chosen": c, "running_enabled": running_enabled, "cost": cost,
                                "has_go": bool(go)})
            self.deviations += cost
            self.taken.append(c)
            p = self.procs[pid]
            p.resume_mode = variant
            if variant == "go" and p.pending and p.pending[0] == "lock-acquire":
                self.locks[p.pending[1]] = pid
            self.log.append((pid, variant, p.pending[0] if p.pending else "start",
                             p.pending[1] if p.pending else ""))
            self.running = pid
            p.sem.release()
            self.ctl.acquire()       # wait until that thread parks again or finishes
            if variant == "crash":
                self._release_locks(p)
            i += 1
            if i > self.max_points:
                raise RuntimeError("execution did not terminate within the horizon")
        stuck = [p.name for p in self.procs if p.state in ("parked", "new")]
        if stuck:
            raise Deadlock(f"no enabled process, still waiting: {stuck}")
        for p in self.procs:
            p.thread.join(timeout=5)
        return self


class Divergence(RuntimeError):
    """A recorded schedule prefix could not be replayed: the code under test did not behave as in the execution the prefix was
    taken from.  With every source of nondeterminism owned by the harness and the world reset between executions, this means
    state kept inside the library from one execution to the next."""


def alt_cost(enabled, c, running_enabled):
    """Deviation cost of taking alternative c: a preemption of a runnable thread, a lock time-out or a crash costs 1;
    choosing among threads when the running one is finished or blocked is free."""
    if c == 0:
        return 0
    pid, variant = enabled[c]
    if variant != "go":
        return 1
    return 1 if running_enabled else 0


def explore(make_execution, bound, check, root_filter=None, stats=None, on_divergence=None):
    """Enumerate every execution with at most `bound` deviations.

    make_execution(choices) -> finished Execution;  check(execution) is called once per execution.
    root_filter(k) selects which first-level subtrees this worker explores (for sharding); the root execution itself is
    checked by the worker for which root_filter(-1) is true.
    """
    stats = stats if stats is not None else {}
    stats.setdefault("executions", 0)
    stats.setdefault("points", 0)

    def visit(prefix, is_root=False):
        try:
            x = make_execution(prefix)
        except Divergence as e:
            if on_divergence is None:
                raise
            on_divergence(prefix, e)        # reported by the caller; nothing below this prefix can be explored
            stats["divergences"] = stats.get("divergences", 0) + 1
            return
        if not is_root or root_filter is None or root_filter(-1):
            stats["executions"] += 1
            stats["points"] += len(x.points)
            check(x)
        used = 0
        child = 0
        for i, pt in enumerate(x.points):
            if i < len(prefix):
                used += pt["cost"]
                continue
            for alt in range(1, len(pt["enabled"])):
                if used + alt_cost(pt["enabled"], alt, pt["running_enabled"] and pt["has_go"]) > bound:
                    continue
                if is_root and root_filter is not None:
                    k = child
                    child += 1
                    if not root_filter(k):
                        continue
                visit(x.taken[:i] + [alt])
            used += pt["cost"]

    visit([], True)
    return stats
