"""Engine self-tests run by MANIFEST.setup_cmd: the harness' own pieces, not the subject."""
import sys


def test_ref_parser():
    from props.c02 import ref_parse
    assert ref_parse("a,(b, c )") == (True, [("t", 0, 1), ("g", 2, 9, [("t", 3, 4), ("t", 6, 7)])])
    assert ref_parse("a),(b")[0] is False
    assert ref_parse("((a)")[0] is False
    assert ref_parse("") == (True, [])


def test_sharding():
    from mc.core import shard_order
    n = 1000
    for seed in (0, 3):
        seen = sorted(i for k in range(16) for i in shard_order(n, k, 16, seed))
        assert seen == list(range(n))


def test_lock_model_conformance():
    """The lock model of props.c19 (nothing locked at construction; exclusive; a waiter gets the lock when the holder
    releases, or AlreadyLocked when the time-out fires first; death releases; the lock file is created on acquire; the lock
    belongs to the file opened at acquire time, not to the path) against
    the real portalocker driven in two real processes."""
    import multiprocessing as mp
    import os
    import shutil
    import tempfile
    import portalocker
    d = tempfile.mkdtemp(prefix="verif-lock-", dir="/dev/shm")
    path = os.path.join(d, "cache_lock.lock")
    ctx = mp.get_context("fork")

    def child(conn, script):
        lock = portalocker.Lock(path, timeout=script.get("timeout", 0.3), fail_when_locked=script.get("fail", False))
        conn.send("constructed")
        for cmd in iter(conn.recv, "quit"):
            if cmd == "acquire":
                try:
                    lock.acquire()
                    conn.send("acquired")
                except portalocker.exceptions.LockException as e:
                    conn.send("LockException:" + type(e).__name__)
            elif cmd == "release":
                lock.release()
                conn.send("released")
            elif cmd == "die":
                conn.send("dying")
                os._exit(0)
        conn.send("bye")

    def spawn(timeout=0.3, fail=False):
        a, b = ctx.Pipe()
        p = ctx.Process(target=child, args=(b, {"timeout": timeout, "fail": fail}))
        p.start()
        assert a.recv() == "constructed"
        return p, a

    def ask(conn, cmd):
        conn.send(cmd)
        return conn.recv()

    traces = 0
    try:
        # 1. construction locks nothing and creates nothing
        p1, c1 = spawn()
        assert not os.path.exists(path)
        p2, c2 = spawn()
        assert ask(c2, "acquire") == "acquired"
        assert os.path.exists(path)                      # 5. acquire creates the file
        traces += 2
        # 2. exclusive: the second acquirer times out with a LockException subclass
        assert ask(c1, "acquire").startswith("LockException:")
        traces += 1
        # 3. release hands the lock over
        assert ask(c2, "release") == "released"
        assert ask(c1, "acquire") == "acquired"
        traces += 1
        # 4. death of the holder releases the lock
        assert ask(c1, "die") == "dying"
        p1.join(5)
        assert ask(c2, "acquire") == "acquired"
        traces += 1
        # 6. a waiter with a long time-out gets the lock once the holder releases
        p3, c3 = spawn(timeout=5)
        c3.send("acquire")
        import time
        time.sleep(0.3)
        assert not c3.poll()                              # still blocked
        assert ask(c2, "release") == "released"
        assert c3.recv() == "acquired"
        traces += 1
        # 7. release is idempotent for the model's purposes
        assert ask(c3, "release") == "released"
        traces += 1
        # 8. the lock belongs to the opened file, not to the path: while c3 holds it and c4 waits on the same file, removing
        #    the path lets a newcomer lock a brand-new file at once; the waiter still gets the old one on release
        assert ask(c3, "acquire") == "acquired"
        p4, c4 = spawn(timeout=5)
        c4.send("acquire")
        time.sleep(0.3)
        assert not c4.poll()
        os.remove(path)
        p5, c5 = spawn()
        assert ask(c5, "acquire") == "acquired"           # new file, no exclusion against the holder of the old one
        assert ask(c3, "release") == "released"
        assert c4.recv() == "acquired"                    # waiter obtains the unlinked file's lock: two holders now
        traces += 1
        # 9. fail_when_locked: a contended attempt fails at once, however long the time-out; uncontended it locks
        p6, c6 = spawn(timeout=5, fail=True)
        t0 = time.time()
        assert ask(c6, "acquire").startswith("LockException:")      # c5 holds the (new) file
        assert time.time() - t0 < 2.0
        assert ask(c5, "release") == "released"
        assert ask(c6, "acquire") == "acquired"
        assert ask(c6, "release") == "released"
        traces += 1
        c6.send("quit")
        c6.recv()
        p6.join(5)
        assert ask(c4, "release") == "released"
        for c in (c4, c5):
            c.send("quit")
            c.recv()
        for pp in (p4, p5):
            pp.join(5)
        for c in (c2, c3):
            c.send("quit")
            c.recv()
        for p in (p2, p3):
            p.join(5)
    finally:
        shutil.rmtree(d, ignore_errors=True)
    assert traces == 9
    return traces


def test_scheduler_enumeration():
    """Two threads of two steps each: no preemption gives the 2 serial orders, unbounded gives all 6 interleavings."""
    from mc import sched
    seen = set()

    def make(choices):
        order = []
        holder = {}

        def body(tag):
            def f():
                for i in range(2):
                    holder["x"].point("step", f"{tag}{i}")
                    order.append(f"{tag}{i}")
                return tag
            return f
        x = sched.Execution([("A", body("a"), False), ("B", body("b"), False)], choices, crash_allowed=False)
        holder["x"] = x
        x.run()
        x.order = tuple(order)
        return x
    for bound, want in ((0, 2), (1, 4), (4, 6)):
        seen.clear()
        sched.explore(make, bound, lambda x: seen.add(x.order))
        assert len(seen) == want, (bound, len(seen), seen)


def main():
    tests = [v for k, v in sorted(globals().items()) if k.startswith("test_")]
    for t in tests:
        t()
    print(f"selftest: {len(tests)} engine self-tests passed")
    return 0


if __name__ == "__main__":
    sys.exit(main())
