"""Engine self-tests run by MANIFEST.setup_cmd: the harness' own pieces, not the subject."""
import sys


def test_ref_parser():
    from props.c02 import ref_parse
    assert ref_parse("a,(b, c )") == (True, [("t", 0, 1), ("g", 2, 9, [("t", 3, 4), ("t", 6, 7)])])
    assert ref_parse("a),(b")[0] is False
    assert ref_parse("((a)")[0] is False
    assert ref_parse("") == (True, [])


def test_sharding():
    from mc.core import shard_order
    n = 1000
    for seed in (0, 3):
        seen = sorted(i for k in range(16) for i in shard_order(n, k, 16, seed))
        assert seen == list(range(n))


def main():
    tests = [v for k, v in sorted(globals().items()) if k.startswith("test_")]
    for t in tests:
        t()
    print(f"selftest: {len(tests)} engine self-tests passed")
    return 0


if __name__ == "__main__":
    sys.exit(main())
