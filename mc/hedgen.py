"""Generator grammar for annotations (DESIGN 3.2), driven by the independent schema model - never by hed.

A tree is a list of items (top level); an item is a Leaf or a list (a parenthesised group).
Leaf(node, suffix, raw): a schema node with an optional '/suffix', or raw text (unknown / malformed tag).
"""
import itertools

RESERVED = ("Def", "Def-expand", "Definition", "Onset", "Offset", "Inset", "Duration", "Delay", "Event-context")


class Leaf:
    __slots__ = ("node", "suffix", "raw")

    def __init__(self, node=None, suffix="", raw=None):
        self.node = node
        self.suffix = suffix
        self.raw = raw

    def text(self, form="short", case=None):
        if self.raw is not None:
            return self.raw
        if form == "short":
            base = self.node.name
        elif form == "long":
            base = self.node.long
        else:  # integer k: drop the first k terms
            terms = self.node.terms()
            k = min(int(form), len(terms) - 1)
            base = "/".join(terms[k:])
        if case == "lower":
            base = base.lower()
        elif case == "upper":
            base = base.upper()
        elif case == "swap":
            base = base.swapcase()
        return base + self.suffix

    def canon(self):
        if self.raw is not None:
            return ("r", self.raw.casefold())
        return ("t", self.node.long.casefold() + self.suffix.casefold())

    def __repr__(self):
        return self.text()


def render(tree, form="short", case=None, sep=", ", lpar="(", rpar=")", top=True):
    parts = []
    for it in tree:
        if isinstance(it, Leaf):
            parts.append(it.text(form, case))
        else:
            parts.append(lpar + render(it, form, case, sep, lpar, rpar, False) + rpar)
    return sep.join(parts)


def canon(tree):
    """Order-insensitive canonical form (sorted nested tuples)."""
    return tuple(sorted((it.canon() if isinstance(it, Leaf) else ("g", canon(it))) for it in tree))


def has_duplicate(tree):
    """True iff some group (or the top level) has two equal members up to order / case (recursively)."""
    cs = [(it.canon() if isinstance(it, Leaf) else ("g", canon(it))) for it in tree]
    if len(set(cs)) != len(cs):
        return True
    return any(has_duplicate(it) for it in tree if not isinstance(it, Leaf))


def count_leaves(tree):
    return sum(1 if isinstance(it, Leaf) else count_leaves(it) for it in tree)


def depth(tree):
    return max([0] + [1 + depth(it) for it in tree if not isinstance(it, Leaf)])


def leaves(tree):
    for it in tree:
        if isinstance(it, Leaf):
            yield it
        else:
            yield from leaves(it)


def groups(tree):
    """All group lists including the top level (top first)."""
    yield tree
    for it in tree:
        if not isinstance(it, Leaf):
            yield from groups(it)


# ------------------------------------------------------------------------------------------------
# shapes: all forests with <= n leaves, <= g groups, depth <= d; every group non-empty

def shapes(n, g, d):
    """Yield shapes as nested tuples: 'L' for a leaf, tuple for a group.  Top level is a tuple of items."""
    seen = set()

    def forests(nl, ng, dd, allow_empty):
        # all ordered forests using exactly nl leaves and exactly ng groups with depth <= dd
        if nl == 0 and ng == 0:
            yield ()
            return
        if nl < 0 or ng < 0:
            return
        # first item is a leaf
        if nl >= 1:
            for rest in forests(nl - 1, ng, dd, True):
                yield ("L",) + rest
        # first item is a group with a leaves and b inner groups
        if ng >= 1 and dd >= 1:
            for a in range(0, nl + 1):
                for b in range(0, ng):
                    if a == 0 and b == 0:
                        continue
                    for inner in forests(a, b, dd - 1, False):
                        if not inner:
                            continue
                        for rest in forests(nl - a, ng - 1 - b, dd, True):
                            yield (inner,) + rest

    for nl in range(1, n + 1):
        for ng in range(0, g + 1):
            for f in forests(nl, ng, d, False):
                if f not in seen:
                    seen.add(f)
                    yield f


def fill(shape, pool):
    """All assignments of pool leaves to the 'L' slots of shape (as trees)."""
    nslots = _count_slots(shape)
    for combo in itertools.product(pool, repeat=nslots):
        it = iter(combo)
        yield _fill(shape, it)


def _count_slots(shape):
    return sum(1 if s == "L" else _count_slots(s) for s in shape)


def _fill(shape, it):
    return [next(it) if s == "L" else _fill(s, it) for s in shape]


# ------------------------------------------------------------------------------------------------
# vocabulary classification from the model

class Vocab:
    def __init__(self, model):
        self.m = model
        self.reserved = {n.casefold() for n in RESERVED}
        self.plain = []        # usable bare: not reserved, no requireChild, (value child optional)
        self.require_child = []
        self.value = []        # has '#' child
        self.ext_ok = []       # extensionAllowed (inherited), no value child
        self.ext_forbidden = []  # no extensionAllowed, no value child
        for t in model.tags:
            if self.is_reserved(t):
                continue
            if t.name.casefold() in getattr(model, "dup_short", ()):
                continue
            if "requireChild" in t.attrs:
                self.require_child.append(t)
            else:
                self.plain.append(t)
            if t.value_child is not None:
                self.value.append(t)
            elif t.has("extensionAllowed"):
                self.ext_ok.append(t)
            else:
                self.ext_forbidden.append(t)
        self.has = {n: (n.casefold() in model.by_short) for n in RESERVED}

    def is_reserved(self, t):
        if t.name.casefold() in self.reserved:
            return True
        # descendants of reserved tags and tags carrying placement attributes are handled by templates only
        for a in ("tagGroup", "topLevelTagGroup", "unique", "required"):
            if t.has(a) or a in t.attrs:
                return True
        return any(p.name.casefold() in self.reserved for p in t.ancestors())

    # ---- values
    def value_classes(self, t):
        from mc.schema_model import as_list
        return as_list(t.value_child.attrs.get("valueClass")) if t.value_child is not None else []

    def unit_classes(self, t):
        from mc.schema_model import as_list
        return as_list(t.value_child.attrs.get("unitClass")) if t.value_child is not None else []

    def good_value(self, t):
        """A conforming '/value' suffix for a value-taking tag, or None when no menu entry applies."""
        vcs = self.value_classes(t)
        ucs = self.unit_classes(t)
        if ucs:
            unit = self.a_unit(t)
            if unit is None:
                return None
            return "/3.5 " + unit
        if not vcs:
            return "/abc"
        if "numericClass" in vcs:
            return "/3.5"
        if "textClass" in vcs:
            return "/abc def"
        if "nameClass" in vcs or "labelClass" in vcs:
            return "/Abc-1_x"
        if "dateTimeClass" in vcs:
            return "/2000-01-01T01:02:03"
        return None

    def a_unit(self, t):
        """One unit text (symbol or name as declared) that is not a prefix-type unit, preferring the default unit."""
        for cname in self.unit_classes(t):
            uc = self.m.unit_classes.get(cname)
            if not uc:
                continue
            default = uc.attrs.get("defaultUnits")
            names = [default] if isinstance(default, str) and default in uc.units else []
            names += [n for n in uc.units if n not in names]
            for n in names:
                u = uc.units[n]
                if "unitPrefix" in u.attrs or "deprecatedFrom" in u.attrs or " " in n:
                    continue
                return n
        return None

    def all_unit_texts(self, t):
        """Every unit name that could be accepted for t (for choosing a foreign unit safely)."""
        out = set()
        for cname in self.unit_classes(t):
            uc = self.m.unit_classes.get(cname)
            if uc:
                out.update(n.casefold() for n in uc.units)
        return out

    def foreign_unit(self, t):
        mine_classes = set(self.unit_classes(t))
        mine = self.all_unit_texts(t)
        for cname, uc in self.m.unit_classes.items():
            if cname in mine_classes:
                continue
            for n, u in uc.units.items():
                if "unitPrefix" in u.attrs or " " in n:
                    continue
                if n.casefold() in mine or self._could_derive(n, t):
                    continue
                return n
        return None

    def _could_derive(self, text, t):
        """Conservatively: could `text` be read as (modifier +) unit (+ plural) of one of t's classes?"""
        low = text.casefold()
        for cname in self.unit_classes(t):
            uc = self.m.unit_classes.get(cname)
            if not uc:
                continue
            for n in uc.units:
                nl = n.casefold()
                if low.endswith(nl) or low.endswith(nl + "s") or low.endswith(nl + "es"):
                    return True
        return False

    # ---- picks
    def plain_leaves(self, k, avoid=()):
        """k plain leaf tags (no children, no value child) from distinct top-level families where possible."""
        out, fams = [], set()
        avoid = {a.long for a in avoid}
        cands = [t for t in self.plain if not t.children and t.value_child is None and "deprecatedFrom" not in t.attrs
                 and not any("deprecatedFrom" in p.attrs for p in t.ancestors())]
        for t in cands:
            fam = t.terms()[0]
            if t.long in avoid or fam in fams:
                continue
            out.append(t)
            fams.add(fam)
            if len(out) == k:
                return out
        for t in cands:
            if t not in out and t.long not in avoid:
                out.append(t)
                if len(out) == k:
                    break
        return out
