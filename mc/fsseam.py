"""File-system seam for crash / torn-write enumeration (DESIGN 3.5).

A Seam owns a step counter.  Interposed operations call seam.point(kind, ...) *before* acting; when the counter reaches
`crash_at` the seam persists the chosen torn state of any open written files and raises Crash (a BaseException, so that
`except Exception` handlers of the subject cannot swallow it).  After a crash every further interposed operation of the
dead process is suppressed (its `finally` / `__exit__` blocks cannot touch the world).

copy / copy2 / copyfile are replaced by a faithful step model: create-or-truncate, write first half, write the rest,
(copy metadata) - so truncated destination files are visible states.
"""
import builtins
import os as real_os
import shutil as real_shutil


class Crash(BaseException):
    pass


class Seam:
    def __init__(self, crash_at=None, torn=0, log=None):
        self.crash_at = crash_at
        self.torn = torn            # 0: nothing of the buffered data reached the disk, 1: half, 2: all
        self.count = 0
        self.dead = False
        self.trace = [] if log is None else log
        self.open_files = []

    def point(self, kind, detail=""):
        if self.dead:
            raise Crash()
        self.trace.append((kind, detail))
        if self.crash_at is not None and self.count == self.crash_at:
            self.dead = True
            for f in list(self.open_files):
                f._persist_torn(self.torn)
            raise Crash()
        self.count += 1

    # ---- interposed operations
    def makedirs(self, path, *a, **kw):
        self.point("makedirs", path)
        return real_os.makedirs(path, *a, **kw)

    def remove(self, path):
        self.point("remove", path)
        return real_os.remove(path)

    def replace(self, src, dst):
        self.point("replace", f"{src} -> {dst}")
        return real_os.replace(src, dst)

    def copy(self, src, dst, with_stat=False):
        if real_os.path.isdir(dst):
            dst = real_os.path.join(dst, real_os.path.basename(src))
        with builtins.open(src, "rb") as f:
            data = f.read()
        self.point("copy:create", dst)
        with builtins.open(dst, "wb"):
            pass
        half = len(data) // 2
        self.point("copy:first-half", dst)
        with builtins.open(dst, "ab") as f:
            f.write(data[:half])
        self.point("copy:rest", dst)
        with builtins.open(dst, "ab") as f:
            f.write(data[half:])
        if with_stat:
            self.point("copy:stat", dst)
            real_shutil.copystat(src, dst)
        return dst

    def open(self, path, mode="r", *a, **kw):
        if any(c in mode for c in "wax+"):
            self.point("open-for-write", path)
            return _WFile(self, path, mode)
        if self.dead:
            raise Crash()
        return builtins.open(path, mode, *a, **kw)


class _WFile:
    """A written file whose data reaches the disk at close; every write is a crash point."""

    def __init__(self, seam, path, mode):
        self.seam = seam
        self.path = path
        self.binary = "b" in mode
        self.buf = b"" if self.binary else ""
        if "a" in mode and real_os.path.exists(path):
            with builtins.open(path, "rb" if self.binary else "r") as f:
                self.buf = f.read()
        with builtins.open(path, "wb"):
            pass
        seam.open_files.append(self)
        self.closed = False

    def write(self, data):
        self.seam.point("write", self.path)
        self.buf += data
        return len(data)

    def flush(self):
        pass

    def _persist(self, data):
        with builtins.open(self.path, "wb" if self.binary else "w") as f:
            f.write(data)

    def _persist_torn(self, torn):
        n = {0: 0, 1: len(self.buf) // 2, 2: len(self.buf)}[torn]
        self._persist(self.buf[:n])
        if self in self.seam.open_files:
            self.seam.open_files.remove(self)

    def close(self):
        if self.closed:
            return
        self.seam.point("close", self.path)
        self._persist(self.buf)
        self.closed = True
        if self in self.seam.open_files:
            self.seam.open_files.remove(self)

    def __enter__(self):
        return self

    def __exit__(self, et, ev, tb):
        if et is not None and issubclass(et, Crash):
            return False
        self.close()
        return False


class OsProxy:
    """Stands in for the `os` module inside one subject module."""

    def __init__(self, seam):
        self._seam = seam
        self.path = real_os.path

    def makedirs(self, *a, **kw):
        return self._seam.makedirs(*a, **kw)

    def remove(self, p):
        return self._seam.remove(p)

    def replace(self, a, b):
        return self._seam.replace(a, b)

    def __getattr__(self, name):
        return getattr(real_os, name)


class ShutilProxy:
    def __init__(self, seam):
        self._seam = seam

    def copy2(self, src, dst, **kw):
        return self._seam.copy(src, dst, with_stat=True)

    def copy(self, src, dst, **kw):
        return self._seam.copy(src, dst, with_stat=False)

    def copyfile(self, src, dst, **kw):
        return self._seam.copy(src, dst, with_stat=False)

    def __getattr__(self, name):
        return getattr(real_shutil, name)


class Interpose:
    """Context manager installing the proxies into a module and removing them again."""

    def __init__(self, module, seam, names=("os", "shutil", "open")):
        self.module, self.seam, self.names = module, seam, names
        self.saved = {}

    def __enter__(self):
        for n in self.names:
            self.saved[n] = self.module.__dict__.get(n, _MISSING)
        if "os" in self.names:
            self.module.os = OsProxy(self.seam)
        if "shutil" in self.names:
            self.module.shutil = ShutilProxy(self.seam)
        if "open" in self.names:
            self.module.open = self.seam.open
        return self.seam

    def __exit__(self, *exc):
        for n, v in self.saved.items():
            if v is _MISSING:
                self.module.__dict__.pop(n, None)
            else:
                setattr(self.module, n, v)
        return False


_MISSING = object()


def tree_bytes(root):
    """path relative to root -> bytes, for every file under root."""
    out = {}
    for d, _, files in real_os.walk(root):
        for f in files:
            p = real_os.path.join(d, f)
            with builtins.open(p, "rb") as fh:
                out[real_os.path.relpath(p, root)] = fh.read()
    return out
