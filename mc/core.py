"""Shared runner machinery: recorder, forked sharding, evidence writer, known-finding matching.

A property module (props/cNN.py) exposes
    ID, LEVEL, RULE, ASSUMPTIONS
    run(ctx)            -> fills ctx.rec (a Rec) directly or through ctx.parallel(worker, nshards, ...)
    replay(ctx, detail) -> list of violation dicts (same shape) for one stored case   [optional]
Workers are forked after imports/schema loads, each handles the indices  k, k+W, k+2W ...  of an indexable
case space, so sharding changes who runs a case and never which cases run.
"""
import hashlib
import json
import multiprocessing as mp
import os
import random
import shutil
import sys
import time
import traceback

VERIF = os.path.dirname(os.path.dirname(os.path.abspath(__file__)))
REPO = os.environ.get("VERIF_REPO", "/repo")
if REPO != "/repo":
    # testing a scratch worktree: make `import hed` resolve there (before the editable finder)
    sys.path.insert(0, REPO)
SCHEMA_DATA = os.path.join(REPO, "hed", "schema", "schema_data")
NCPU = int(os.environ.get("VERIF_WORKERS", "16"))
MAX_SAMPLES = 12
MAX_VIOL_PER_FP = 5


def stable_hash(obj):
    return hashlib.sha1(repr(obj).encode("utf8", "backslashreplace")).hexdigest()[:16]


class Rec:
    """What one worker (or the whole run) observed."""

    def __init__(self):
        self.counts = {}        # name -> int
        self.viol = {}          # fingerprint -> [detail, ...] (capped)
        self.viol_n = {}        # fingerprint -> total count
        self.outcomes = set()   # distinct observed outcomes (small strings / tuples)
        self.samples = []       # a few cases written out
        self.states = set()     # distinct canonical states (hashes) when the property tracks them
        self.notes = {}         # name -> value (bounds completed, observations ...)
        self.nontrivial = set()  # hashes of distinct non-trivial cases (when not countable by construction)

    def n(self, key, k=1):
        self.counts[key] = self.counts.get(key, 0) + k

    def violation(self, fingerprint, **detail):
        self.viol_n[fingerprint] = self.viol_n.get(fingerprint, 0) + 1
        lst = self.viol.setdefault(fingerprint, [])
        if len(lst) < MAX_VIOL_PER_FP:
            lst.append(detail)

    def outcome(self, x):
        self.outcomes.add(x)

    def sample(self, x, force=False):
        if force or len(self.samples) < MAX_SAMPLES:
            self.samples.append(x)

    def state(self, key):
        h = hash(key)
        if h in self.states:
            return False
        self.states.add(h)
        return True

    def merge(self, other):
        for k, v in other.counts.items():
            self.counts[k] = self.counts.get(k, 0) + v
        for fp, lst in other.viol.items():
            mine = self.viol.setdefault(fp, [])
            for d in lst:
                if len(mine) < MAX_VIOL_PER_FP:
                    mine.append(d)
        for fp, c in other.viol_n.items():
            self.viol_n[fp] = self.viol_n.get(fp, 0) + c
        self.outcomes |= other.outcomes
        self.states |= other.states
        self.nontrivial |= other.nontrivial
        for s in other.samples:
            if len(self.samples) < MAX_SAMPLES:
                self.samples.append(s)
        for k, v in other.notes.items():
            if k in self.notes and isinstance(v, (int, float)) and isinstance(self.notes[k], (int, float)):
                self.notes[k] = max(self.notes[k], v)
            elif k in self.notes and isinstance(v, list) and isinstance(self.notes[k], list):
                self.notes[k] = self.notes[k] + [x for x in v if x not in self.notes[k]]
            else:
                self.notes[k] = v


class Ctx:
    def __init__(self, prop_id, tier, seed):
        self.prop_id = prop_id
        self.tier = tier
        self.seed = seed
        self.rec = Rec()
        self.t0 = time.time()
        self.scratch = f"/dev/shm/verif-{os.getpid()}"
        os.makedirs(self.scratch, exist_ok=True)
        self.deadline = None
        self.capped = False
        self.rng = random.Random(seed)
        self.workers = NCPU

    @property
    def thorough(self):
        return self.tier == "thorough"

    def pick(self, quick, thorough):
        return thorough if self.thorough else quick

    def cleanup(self):
        shutil.rmtree(self.scratch, ignore_errors=True)

    def subdir(self, name):
        p = os.path.join(self.scratch, name)
        os.makedirs(p, exist_ok=True)
        return p

    def parallel(self, worker, *args, nshards=None, **kw):
        """Run worker(rec, shard, nshards, *args, **kw) in forked processes and merge the recorders."""
        nshards = nshards or self.workers
        if nshards == 1 or os.environ.get("VERIF_SERIAL"):
            for k in range(nshards):
                worker(self.rec, k, nshards, *args, **kw)
            return
        mpctx = mp.get_context("fork")
        q = mpctx.SimpleQueue()
        procs = []
        for k in range(nshards):
            p = mpctx.Process(target=_child, args=(q, worker, k, nshards, args, kw, self.seed))
            p.start()
            procs.append(p)
        got = 0
        errors = []
        while got < nshards:
            kind, k, payload = q.get()
            got += 1
            if kind == "ok":
                self.rec.merge(payload)
            else:
                errors.append((k, payload))
        for p in procs:
            p.join()
        if errors:
            raise HarnessError("worker failure:\n" + "\n".join(f"[shard {k}] {tb}" for k, tb in errors))


class HarnessError(Exception):
    pass


def hash_sweep(modname, funcname, seeds, timeout=900, extra_env=None):
    """Own the one source of nondeterminism a single process cannot vary: string hashing (set / dict-of-set iteration order).
    Runs `modname.funcname()` (must return something JSON-serialisable) in one fresh interpreter per PYTHONHASHSEED value
    and returns {seed: result}.  The hed cache directory and VERIF_REPO are inherited."""
    import json
    import subprocess
    from concurrent.futures import ThreadPoolExecutor
    code = (f"import json, sys; sys.path.insert(0, {VERIF!r}); from mc import core; import atexit, shutil, os; "
            f"atexit.register(shutil.rmtree, os.path.dirname(core.private_cache()), True); "
            f"import {modname} as m; sys.stdout.write('\\n@@SWEEP@@' + json.dumps(m.{funcname}()))")

    def one(seed):
        env = dict(os.environ, PYTHONHASHSEED=str(seed))
        env.update(extra_env or {})     # e.g. a locale: another part of the environment one process cannot vary
        p = subprocess.run([sys.executable, "-c", code], capture_output=True, text=True, timeout=timeout, env=env, cwd=VERIF)
        if p.returncode != 0 or "@@SWEEP@@" not in p.stdout:
            raise HarnessError(f"hash sweep child failed (seed {seed}): {p.stderr[-600:]}")
        return seed, json.loads(p.stdout.split("@@SWEEP@@", 1)[1])
    with ThreadPoolExecutor(min(len(seeds), max(2, NCPU))) as ex:
        return dict(ex.map(one, seeds))


def _child(q, worker, k, nshards, args, kw, seed):
    rec = Rec()
    try:
        random.seed(seed * 1000003 + k)
        worker(rec, k, nshards, *args, **kw)
        q.put(("ok", k, rec))
    except BaseException:
        q.put(("err", k, traceback.format_exc()))


def shard_order(n, shard, nshards, seed):
    """Indices of this shard, in a seed-dependent order (the seed changes order only, never membership)."""
    idx = list(range(shard, n, nshards))
    if seed:
        random.Random(seed * 7919 + shard).shuffle(idx)
    return idx


# ------------------------------------------------------------------------------------------------
# hermetic hed environment

_private_cache = None


def private_cache(ctx=None):
    """Point hed at a private cache directory populated from the repo's bundled schemas."""
    global _private_cache
    if _private_cache:
        return _private_cache
    root = (ctx.scratch if ctx else f"/dev/shm/verif-{os.getpid()}")
    d = os.path.join(root, "hed_cache")
    os.makedirs(d, exist_ok=True)
    for f in os.listdir(SCHEMA_DATA):
        src = os.path.join(SCHEMA_DATA, f)
        if os.path.isfile(src):
            shutil.copyfile(src, os.path.join(d, f))
    lib = os.path.join(SCHEMA_DATA, "library_data")
    if os.path.isdir(lib):
        shutil.copytree(lib, os.path.join(d, "library_data"), dirs_exist_ok=True)
    import hed.schema.hed_cache as hc
    hc.HED_CACHE_DIRECTORY = d
    _private_cache = d
    return d


def bundled_files():
    return sorted(f for f in os.listdir(SCHEMA_DATA) if f.endswith(".xml"))


# ------------------------------------------------------------------------------------------------
# known findings

def load_findings():
    p = os.path.join(VERIF, "known_findings.json")
    if not os.path.exists(p):
        return {"known": [], "fixed": []}
    with open(p) as f:
        return json.load(f)


def known_lookup(prop_id):
    """fingerprint -> text for the listed *known* findings of this property (fixed entries suppress nothing)."""
    out = {}
    for e in load_findings().get("known", []):
        if e["property"] == prop_id:
            out[e["fingerprint"]] = e["what"]
    return out


# ------------------------------------------------------------------------------------------------
# evidence

def write_evidence(ctx, mod, violations_unlisted, extra=None):
    rec = ctx.rec
    c = rec.counts
    evaluations = int(c.get("evaluations", 0))
    states = int(c.get("states", len(rec.states)))
    transitions = int(c.get("transitions", evaluations))
    if rec.nontrivial:
        distinct_nt = len(rec.nontrivial)
    else:
        distinct_nt = int(c.get("distinct_nontrivial", 0))
    cov = {
        "states": states,
        "transitions": transitions,
        "traces_validated_against_impl": int(c.get("traces_validated_against_impl", evaluations)),
        "evaluations": evaluations,
        "distinct_nontrivial": distinct_nt,
        "rule": getattr(mod, "RULE", ""),
        "samples": rec.samples[:MAX_SAMPLES] or ["(none)"],
        "exhaustive": bool(not ctx.capped and rec.notes.get("exhaustive", True)),
        "distinct_outcomes": len(rec.outcomes),
        "outcomes": sorted(map(str, rec.outcomes))[:60],
        "counters": {k: v for k, v in sorted(c.items())},
        "bounds": rec.notes.get("bounds", {}),
        "notes": {k: v for k, v in rec.notes.items() if k not in ("bounds", "exhaustive")},
        "known_findings_seen": sorted(fp for fp in rec.viol_n if fp in known_lookup(ctx.prop_id)),
        "violation_fingerprints": {fp: n for fp, n in sorted(rec.viol_n.items())},
        "repo": REPO,
        "workers": ctx.workers,
    }
    if extra:
        cov.update(extra)
    ev = {
        "property_id": ctx.prop_id,
        "tier": ctx.tier,
        "seed": ctx.seed,
        "level": getattr(mod, "LEVEL", "model_checking"),
        "coverage": cov,
        "assumptions": list(getattr(mod, "ASSUMPTIONS", [])),
        "wall_s": round(time.time() - ctx.t0, 2),
        "violations": violations_unlisted,
    }
    try:
        import jsonschema
        with open("/root/.vp/EVIDENCE.schema.json") as f:
            schema = json.load(f)
        jsonschema.validate(ev, schema)
    except FileNotFoundError:
        pass
    evdir = os.environ.get("VERIF_EVIDENCE_DIR") or os.path.join(VERIF, "evidence")
    os.makedirs(evdir, exist_ok=True)
    path = os.path.join(evdir, f"{ctx.prop_id}.json")
    tmp = path + ".tmp"
    with open(tmp, "w") as f:
        json.dump(ev, f, indent=1, default=str, ensure_ascii=True)
    os.replace(tmp, path)
    return ev
